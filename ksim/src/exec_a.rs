//! Executor A: single-threaded discrete-event stepper over the real `Kanata` state machine through
//! its public API, following the protocol of the production loop (can-block call before every
//! iteration; an event that arrives while blocked is followed by exactly one tick).

use crate::ops::Op;
use crate::trace::*;
use kanata_parser::cfg::FAKE_KEY_ROW;
use kanata_parser::custom_action::FakeKeyAction;
use kanata_parser::keys::OsCode;
use kanata_state_machine::oskbd::{KeyEvent, KeyValue};
use kanata_state_machine::{handle_fakekey_action, Kanata};

#[derive(Clone, Copy, Debug, PartialEq)]
pub enum Mode {
    /// never skip: tick every simulated ms
    Ticking,
    /// skip (jump the clock to the next op) whenever the real can-block decision says so
    Blocking,
}

#[derive(Clone, Debug, Default)]
pub struct Probes {
    pub max_queue: usize,
    pub queue_full_on_event: u64,
    pub max_states: usize,
    pub max_held_layers: usize,
    pub max_extra_waiting: usize,
    pub max_oneshot_keys: usize,
    pub max_active_sequences: usize,
    pub max_action_queue: usize,
    pub waiting_seen: u64,
    pub chv2_active_seen: u64,
    pub seq_mode_seen: u64,
    pub on_idle_armed: u64,
    pub vkeys_pending_seen: u64,
    pub dyn_replay_seen: u64,
    pub dyn_record_seen: u64,
    pub caps_word_seen: u64,
    pub blocked_only_by_switch_timing: u64,
    pub virtual_sleep_ns: u64,
    /// ticks in which >= 2 custom-action states were released, or one was released while another
    /// was pressed (keyberon delivers at most one custom event per tick)
    pub custom_events_collided: u64,
    /// dynamic macro replays started so far / at the time of the last input event: a macro whose
    /// replay starts again and again without any input re-triggers itself
    pub dyn_replay_starts: u64,
    pub dyn_replay_starts_at_last_input: u64,
    dyn_replay_prev: bool,
}

/// What the TCP server does for an ActOnFakeKey request once it holds the lock (mirrors
/// src/tcp_server.rs, which itself cannot run under the simulator: it owns real sockets).
pub fn tcp_act_on_fake_key(k: &mut Kanata, action: kanata_parser::custom_action::FakeKeyAction, idx: u16) {
    k.vkeys_pending_release.remove(&kanata_parser::custom_action::Coord { x: kanata_parser::cfg::FAKE_KEY_ROW, y: idx });
    handle_fakekey_action(action, k.layout.bm(), kanata_parser::cfg::FAKE_KEY_ROW, idx);
}

pub struct Stepper {
    /// keys kanata intercepts (what event_loop's MAPPED_KEYS filter lets through); None = unfiltered
    pub mapped: Option<rustc_hash::FxHashSet<OsCode>>,
    pub dropped_unmapped: u64,
    pub k: Kanata,
    pub mode: Mode,
    /// ticks executed so far == absolute time in ms in ticking mode
    pub now: u64,
    prev_elapsed: u16,
    blocked: bool,
    /// ms that passed without ticks since the loop blocked (reported to Kanata on wake-up)
    blocked_ms: u64,
    owed_tick: bool,
    /// last can_block result was true and no input since
    blockable: bool,
    pub trace: Trace,
    pub probes: Probes,
    /// more than 20000 output events came out of one tick (see `drain`)
    pub flood: bool,
    /// "late loop" schedule: when the loop is not blocked, one iteration covers this many
    /// milliseconds (handle_time_ticks then calls tick_ms(n) once). 1 = an iteration per ms.
    pub batch: u64,
    /// stop the run (flood flag) once this many outputs have been recorded
    pub out_limit: usize,
    /// wall-clock budget of one run: a run that is merely long and busy (minutes of simulated time
    /// with work in every tick) is stopped (flood flag, `too_slow`) before the parent's per-case
    /// watchdog would mistake it for a tick that never returns
    started: std::time::Instant,
    pub too_slow: bool,
    iters: u64,
    /// ticks the output recorder has counted so far / ticks covered by the tick_ms call being drained
    rec_ticks: u64,
    cur_n: u64,
    pub tick_err: Option<String>,
    sleep_base: u64,
    custom_dropped_base: u64,
    queue_overflow_base: u64,
    pub track_custom: bool,
    last_in: usize,
    ticks_since_in: u64,
}

pub fn new_kanata(cfg: &str, files: &[(String, String)]) -> Result<Kanata, String> {
    let mut m: rustc_hash::FxHashMap<String, String> = Default::default();
    for (k, v) in files {
        m.insert(k.clone(), v.clone());
    }
    Kanata::new_from_str(cfg, m).map_err(|e| format!("{e}"))
}

impl Stepper {
    pub fn new(cfg: &str, files: &[(String, String)], mode: Mode) -> Result<Stepper, String> {
        let k = new_kanata(cfg, files)?;
        Ok(Stepper::from_kanata(k, mode))
    }

    /// Like `new`, but events for keys outside the configuration's mapped-key set are passed
    /// through untouched by kanata, as `event_loop` does (they never reach the state machine).
    pub fn new_filtered(cfg: &str, files: &[(String, String)], mode: Mode) -> Result<Stepper, String> {
        let mut m: rustc_hash::FxHashMap<String, String> = Default::default();
        for (k, v) in files {
            m.insert(k.clone(), v.clone());
        }
        let mapped = kanata_parser::cfg::new_from_str(cfg, m).map_err(|e| format!("{e:?}"))?.mapped_keys;
        let mut st = Stepper::new(cfg, files, mode)?;
        st.mapped = Some(mapped);
        Ok(st)
    }

    pub fn from_kanata(k: Kanata, mode: Mode) -> Stepper {
        let mut st = Stepper::from_kanata_inner(k, mode);
        if mode == Mode::Blocking {
            // the processing loop starts by asking whether it can block; from a freshly started
            // (idle) instance it does, so the first event is handled as a wake-up (found by comparing
            // with the real loop thread, executor B)
            if st.k.can_block_update_idle_waiting(0) {
                st.blocked = true;
            }
        }
        st
    }

    fn from_kanata_inner(k: Kanata, mode: Mode) -> Stepper {
        Stepper {
            mapped: None,
            dropped_unmapped: 0,
            k,
            mode,
            now: 0,
            prev_elapsed: 0,
            blocked: false,
            blocked_ms: 0,
            owed_tick: false,
            blockable: false,
            trace: Trace::default(),
            probes: Probes::default(),
            flood: false,
            batch: 1,
            out_limit: usize::MAX,
            started: std::time::Instant::now(),
            too_slow: false,
            iters: 0,
            rec_ticks: 0,
            cur_n: 1,
            tick_err: None,
            sleep_base: kanata_verif_rt::inactive_slept_ns(),
            custom_dropped_base: kanata_keyberon::layout::VERIF_CUSTOM_EVENTS_DROPPED.load(std::sync::atomic::Ordering::Relaxed),
            queue_overflow_base: kanata_keyberon::layout::VERIF_QUEUE_OVERFLOWS.load(std::sync::atomic::Ordering::Relaxed),
            track_custom: false,
            last_in: usize::MAX,
            ticks_since_in: 0,
        }
    }

    fn drain_repeat(&mut self) {
        let n0 = self.trace.outs.len();
        self.drain();
        for e in self.trace.outs[n0..].iter_mut() {
            if e.kind == OutKind::Press {
                e.kind = OutKind::RepeatOut;
            }
        }
    }

    fn drain(&mut self) {
        if std::env::var_os("KSIM_TRACE").is_some() {
            let l = self.k.layout.b();
            eprintln!(
                "  t={} q={} states={} waiting={} xw={} aq={} out={:?} keys={:?}",
                self.now,
                l.queue.len(),
                l.states.len(),
                l.waiting.is_some(),
                l.extra_waiting.len(),
                l.action_queue.len(),
                self.k.kbd_out.outputs.events,
                l.keycodes().collect::<Vec<_>>()
            );
            if self.k.sequence_state.is_active() {
                eprintln!("     seq={:x?} ovl={:x?}", self.k.sequence_state.sequence, self.k.sequence_state.overlapped_sequence);
            }
        }
        if self.k.kbd_out.outputs.events.is_empty() {
            return;
        }
        let evs = std::mem::take(&mut self.k.kbd_out.outputs.events);
        // the recorder also keeps a formatted log that grows with every output (hundreds of MB
        // over a long run of continuous scrolling); nothing here reads it
        if !evs.is_empty() {
            self.k.kbd_out.log = kanata_state_machine::oskbd::LogFmt::new();
        }
        if evs.len() > 100 && std::env::var("KSIM_OUTRATE").is_ok() {
            eprintln!("tick {}: {} output events, e.g. {:?}", self.now, evs.len(), &evs[..6.min(evs.len())]);
        }
        // A dynamic macro replayed with its recorded delays fast-forwards them: a recorded pause of
        // up to 65535 ms is run through inside one tick_ms call. With something that outputs in
        // every tick (scrolling) and a macro that re-triggers itself that is tens of thousands of
        // events per simulated ms - bounded, but more than a run can keep. Such a run is marked and
        // its outputs are not kept; the checks that can meet it skip it.
        let evs = if evs.len() > 20_000 {
            self.flood = true;
            evs.into_iter().take(64).collect()
        } else {
            evs
        };
        for s in evs {
            // the recorder's own clock: "t:Nms" = N ticks completed since its previous entry
            if let Some(n) = s.strip_prefix("t:").and_then(|r| r.strip_suffix("ms")).and_then(|n| n.parse::<u64>().ok()) {
                self.rec_ticks += n;
                continue;
            }
            if let Some(mut e) = parse_out(self.now, &s) {
                e.in_idx = self.last_in;
                e.dt = self.ticks_since_in;
                if self.cur_n > 1 {
                    // one tick_ms(n) call covered n ticks: place the output at the tick in which the
                    // recorder saw it (it happened in tick rec_ticks + 1 of trace.ticks so far)
                    let back = self.trace.ticks.saturating_sub(self.rec_ticks + 1).min(self.cur_n - 1);
                    e.t -= back;
                    e.dt -= back.min(e.dt);
                }
                if self.blockable {
                    self.trace.outputs_while_blockable.push(e.clone());
                }
                self.trace.outs.push(e);
            }
        }
        if self.trace.outs.len() > self.out_limit {
            self.flood = true;
        }
    }

    fn probe(&mut self) {
        let l = self.k.layout.b();
        let p = &mut self.probes;
        p.max_queue = p.max_queue.max(l.queue.len());
        p.max_states = p.max_states.max(l.states.len());
        p.max_held_layers = p.max_held_layers.max(l.active_held_layers().count());
        p.max_extra_waiting = p.max_extra_waiting.max(l.extra_waiting.len());
        p.max_oneshot_keys = p.max_oneshot_keys.max(l.oneshot.keys.len());
        p.max_active_sequences = p.max_active_sequences.max(l.active_sequences.len());
        p.max_action_queue = p.max_action_queue.max(l.action_queue.len());
        if l.waiting.is_some() {
            p.waiting_seen += 1;
        }
        if let Some(c) = l.chords_v2.as_ref() {
            if !c.is_idle_chv2() {
                p.chv2_active_seen += 1;
            }
        }
        if !self.k.sequence_state.is_inactive() {
            p.seq_mode_seen += 1;
        }
        if !self.k.waiting_for_idle.is_empty() {
            p.on_idle_armed += 1;
        }
        if !self.k.vkeys_pending_release.is_empty() {
            p.vkeys_pending_seen += 1;
        }
        if self.k.dynamic_macro_replay_state.is_some() {
            p.dyn_replay_seen += 1;
            if !p.dyn_replay_prev {
                p.dyn_replay_starts += 1;
            }
        }
        p.dyn_replay_prev = self.k.dynamic_macro_replay_state.is_some();
        if self.k.dynamic_macro_record_state.is_some() {
            p.dyn_record_seen += 1;
        }
        if self.k.caps_word.is_some() {
            p.caps_word_seen += 1;
        }
    }

    fn can_block(&mut self) -> bool {
        let cb = self.k.can_block_update_idle_waiting(self.prev_elapsed);
        if cb {
            self.trace.blockable_points += 1;
            self.blockable = true;
        } else {
            self.blockable = false;
            if self.k.is_idle() && self.k.waiting_for_idle.is_empty() {
                self.probes.blocked_only_by_switch_timing += 1;
            }
        }
        cb
    }

    fn custom_states(&self) -> Vec<(usize, (u8, u16))> {
        use kanata_keyberon::layout::State;
        self.k
            .layout
            .b()
            .states
            .iter()
            .filter_map(|s| match s {
                State::Custom { value, coord } => Some((*value as *const _ as *const u8 as usize, *coord)),
                _ => None,
            })
            .collect()
    }

    fn one_tick(&mut self, n: u128) {
        let before = if self.track_custom && n == 1 { self.custom_states() } else { vec![] };
        self.one_tick_inner(n);
        if self.track_custom && n == 1 {
            let after = self.custom_states();
            if !(before.is_empty() && after.is_empty()) {
                let removed = before.iter().filter(|x| !after.contains(x)).count();
                let added = after.iter().filter(|x| !before.contains(x)).count();
                if removed >= 2 || (removed >= 1 && added >= 1) || added >= 2 {
                    self.probes.custom_events_collided += 1;
                }
            }
        }
    }

    fn one_tick_inner(&mut self, n: u128) {
        if let Err(e) = self.k.tick_ms(n, &None) {
            if self.tick_err.is_none() {
                self.tick_err = Some(format!("{e}"));
            }
        }
        self.now += n as u64;
        self.ticks_since_in += n as u64;
        self.trace.ticks += n as u64;
        self.trace.sim_ms += n as u64;
        self.cur_n = n as u64;
        self.drain();
        self.cur_n = 1;
        self.probe();
    }

    /// n ms of simulated time with no input.
    pub fn gap(&mut self, n: u64) {
        let mut i = 0;
        while i < n {
            if self.flood {
                return;
            }
            self.iters += 1;
            if self.iters & 1023 == 0 && self.started.elapsed().as_secs() >= 6 {
                self.flood = true;
                self.too_slow = true;
                return;
            }
            if self.owed_tick {
                // the wake-up iteration: event handled, then exactly one tick, no can-block call
                self.owed_tick = false;
                self.blocked = false;
                self.blockable = false;
                self.one_tick(1);
                self.prev_elapsed = 1;
                i += 1;
                continue;
            }
            let cb = self.can_block();
            if self.mode == Mode::Blocking && cb {
                // recv() blocks until the next input: no time is observed
                let skipped = n - i;
                self.trace.skipped_ms += skipped;
                self.trace.sim_ms += skipped;
                self.blocked_ms += skipped;
                self.blocked = true;
                return;
            }
            let k = self.batch.max(1).min(n - i);
            self.one_tick(k as u128);
            self.prev_elapsed = k as u16;
            i += k;
        }
    }

    fn before_input(&mut self, op_idx: usize) {
        self.trace.ins.push(InEv { t: self.now, op_idx });
        self.last_in = op_idx;
        self.ticks_since_in = 0;
        self.probes.dyn_replay_starts_at_last_input = self.probes.dyn_replay_starts;
        if self.blocked {
            // woken from recv(): the loop reports the time spent blocked, handles the event, then
            // ticks once (owed to the following gap)
            if self.blocked_ms > 0 {
                self.k.account_time_blocked(self.blocked_ms as u128);
                self.blocked_ms = 0;
            }
            self.owed_tick = true;
        } else if !self.owed_tick {
            // loop top of the iteration that finds the event: if the loop can block it calls recv(),
            // which returns the waiting event at once and is followed by the wake-up tick (found by
            // comparing with the real loop thread, executor B); otherwise try_recv
            let cb = self.can_block();
            if cb && self.mode == Mode::Blocking {
                self.blocked = true;
                self.owed_tick = true;
            }
        }
        self.blockable = false;
    }

    fn after_input(&mut self) {
        if !self.blocked && !self.owed_tick {
            // handle_time_ticks in the same iteration: 0 ms elapsed
            let _ = self.k.tick_ms(0, &None);
            self.prev_elapsed = 0;
        }
        self.drain();
        self.probe();
    }

    fn key_event(&mut self, op_idx: usize, code: u16, value: KeyValue) {
        let Some(osc) = OsCode::from_u16(code) else {
            return;
        };
        if let Some(m) = &self.mapped {
            if !m.contains(&osc) {
                self.dropped_unmapped += 1;
                return;
            }
        }
        if std::env::var_os("KSIM_TRACE").is_some() {
            eprintln!("IN t={} {:?} {:?}", self.now, osc, value);
        }
        self.before_input(op_idx);
        if self.k.layout.b().queue.len() >= 32 {
            self.probes.queue_full_on_event += 1;
        }
        if let Err(e) = self.k.handle_input_event(&KeyEvent { code: osc, value }) {
            if self.tick_err.is_none() {
                self.tick_err = Some(format!("handle_input_event: {e}"));
            }
        }
        if value == KeyValue::Repeat {
            self.drain_repeat();
        }
        self.after_input();
    }

    fn wakeup(&mut self) {
        let _ = self.k.handle_input_event(&KeyEvent { code: OsCode::KEY_RESERVED, value: KeyValue::WakeUp });
    }

    pub fn apply(&mut self, op_idx: usize, op: &Op) {
        match op {
            Op::Press(c) => self.key_event(op_idx, *c, KeyValue::Press),
            Op::Release(c) => self.key_event(op_idx, *c, KeyValue::Release),
            Op::Repeat(c) => self.key_event(op_idx, *c, KeyValue::Repeat),
            Op::TapEvt(c) => self.key_event(op_idx, *c, KeyValue::Tap),
            Op::Gap(n) => self.gap(*n as u64),
            Op::ClockJump(n) => {
                if self.owed_tick {
                    self.owed_tick = false;
                    self.blocked = false;
                } else {
                    let cb = self.can_block();
                    if self.mode == Mode::Blocking && cb {
                        self.trace.skipped_ms += *n as u64;
                        self.trace.sim_ms += *n as u64;
                        self.blocked_ms += *n as u64;
                        self.blocked = true;
                        return;
                    }
                }
                self.blockable = false;
                self.one_tick(*n as u128);
                self.prev_elapsed = *n as u16;
            }
            Op::Vkey(name, act) => {
                self.before_input(op_idx);
                // body of the TCP handler for ClientMessage::ActOnFakeKey
                if let Some(idx) = self.k.virtual_keys.get(name).copied() {
                    let action = match act & 3 {
                        0 => FakeKeyAction::Press,
                        1 => FakeKeyAction::Release,
                        2 => FakeKeyAction::Tap,
                        _ => FakeKeyAction::Toggle,
                    };
                    tcp_act_on_fake_key(&mut self.k, action, idx as u16);
                }
                self.wakeup();
                self.after_input();
            }
            Op::ChangeLayer(name) => {
                self.before_input(op_idx);
                self.k.change_layer(name.clone());
                self.wakeup();
                self.after_input();
            }
            Op::FileWrite(..) | Op::FileRemove(_) | Op::FileDir(_) | Op::FileBytes(..) => {}
        }
    }

    pub fn run_ops(&mut self, ops: &[Op]) {
        for (i, op) in ops.iter().enumerate() {
            if self.flood {
                // (see `drain`: the rest of such a run is not simulated)
                break;
            }
            self.apply(i, op);
        }
    }

    /// custom events dropped by keyberon (one per tick is delivered) since this stepper was built
    /// (hook H5): the precise cause probe behind the `custom-events-collided` tag
    pub fn custom_events_dropped(&self) -> u64 {
        kanata_keyberon::layout::VERIF_CUSTOM_EVENTS_DROPPED.load(std::sync::atomic::Ordering::Relaxed) - self.custom_dropped_base
    }

    /// input queue overflows inside keyberon since this stepper was built (hook H7): the precise
    /// cause probe behind the `queue-overflow` tag
    pub fn queue_overflows(&self) -> u64 {
        kanata_keyberon::layout::VERIF_QUEUE_OVERFLOWS.load(std::sync::atomic::Ordering::Relaxed) - self.queue_overflow_base
    }

    pub fn finish(&mut self) {
        self.probes.custom_events_collided += self.custom_events_dropped();
        self.probes.virtual_sleep_ns = kanata_verif_rt::inactive_slept_ns() - self.sleep_base;
    }

    /// OS keys down according to the output trace so far.
    pub fn down_set(&self) -> DownSet {
        let mut d = DownSet::default();
        for e in &self.trace.outs {
            d.apply(e);
        }
        d
    }
}
