//! Executor B: the real `Kanata::start_processing_loop` thread, an input-feeder task and TCP-client
//! tasks, all running as real threads under the baton scheduler of `kanata_verif_rt` with a virtual
//! clock. Every lock / send / recv / sleep / Instant::now is a scheduling point decided by the seeded
//! PRNG (or by the recorded choice tape on replay).

use crate::ops::*;
use crate::trace::*;
use kanata_parser::custom_action::FakeKeyAction;
use kanata_parser::keys::OsCode;
use kanata_state_machine::oskbd::{KeyEvent, KeyValue};
use kanata_state_machine::Kanata;
use kanata_tcp_protocol::ServerMessage;
use kanata_verif_rt as rt;
use std::sync::Arc;
use std::time::Duration;

#[derive(Debug, Default, Clone)]
pub struct BRun {
    /// outputs with the kanata tick count at which they were emitted (reconstructed from the
    /// recorder's own "t:Nms" entries)
    pub outs: Vec<OutEv>,
    pub notes: Vec<String>,
    pub report: rt::RunReport,
    pub ticks: u64,
    pub end_ms: u64,
    /// virtual keys down in the layout at the end (coordinate indices)
    pub states_at_end: usize,
    pub down_at_end: Vec<String>,
    pub loop_exited: bool,
    pub dynamic_macros: String,
    /// custom events dropped by keyberon during the run (hook H5)
    pub custom_events_dropped: u64,
}

#[derive(Clone, Debug)]
pub struct BOpts {
    pub sim: rt::SimCfg,
    /// virtual key operations are performed by a separate TCP-client task (true) or by the feeder (false)
    pub tcp_task: bool,
    /// feeder phase offset in microseconds
    pub phase_us: u64,
}

fn parse_recorder(events: &[String]) -> (Vec<OutEv>, u64) {
    let mut t = 0u64;
    let mut outs = vec![];
    for s in events {
        if let Some(r) = s.strip_prefix("t:") {
            if let Some(n) = r.strip_suffix("ms") {
                t += n.parse::<u64>().unwrap_or(0);
                continue;
            }
        }
        // the recorder counts completed ticks; an output of the n-th tick is preceded by n-1 of them
        if let Some(e) = parse_out(t + 1, s) {
            outs.push(e);
        }
    }
    (outs, t)
}

/// Runs the history on the real processing loop. `ops` may contain Press / Release / Repeat / Gap /
/// Vkey / ChangeLayer.
pub fn run_b(cfg: &str, files: &[(String, String)], ops: &[Op], opts: &BOpts) -> Result<BRun, String> {
    let mut m: rustc_hash::FxHashMap<String, String> = Default::default();
    for (k, v) in files {
        m.insert(k.clone(), v.clone());
    }
    let mapped = kanata_parser::cfg::new_from_str(cfg, m.clone()).map_err(|e| format!("{e:?}"))?.mapped_keys;
    let k = Kanata::new_from_str(cfg, m).map_err(|e| format!("{e}"))?;
    let ops: Vec<Op> = ops.to_vec();
    let opts2 = opts.clone();
    let dropped0 = kanata_keyberon::layout::VERIF_CUSTOM_EVENTS_DROPPED.load(std::sync::atomic::Ordering::Relaxed);
    let (res, report) = rt::run(opts.sim.clone(), move || {
        let kanata = Arc::new(rt::parking_lot::Mutex::new(k));
        let (tx, rx) = rt::mpsc::sync_channel::<KeyEvent>(100);
        let (ntx, nrx) = rt::mpsc::sync_channel::<ServerMessage>(100);
        Kanata::start_processing_loop(kanata.clone(), rx, Some(ntx), true);
        // TCP-client task: receives (name, action) requests from the feeder's schedule through a
        // channel and performs them the way the socket handler does
        let (vtx, vrx) = rt::mpsc::channel::<(String, u8)>();
        let tcp = if opts2.tcp_task {
            let kk = kanata.clone();
            let wake = tx.clone();
            Some(rt::thread::spawn_named("tcp", move || {
                while let Ok((name, act)) = vrx.recv() {
                    {
                        let mut k = kk.lock();
                        if let Some(idx) = k.virtual_keys.get(&name).copied() {
                            let action = match act & 3 {
                                0 => FakeKeyAction::Press,
                                1 => FakeKeyAction::Release,
                                2 => FakeKeyAction::Tap,
                                _ => FakeKeyAction::Toggle,
                            };
                            crate::exec_a::tcp_act_on_fake_key(&mut k, action, idx as u16);
                        }
                    }
                    let _ = wake.try_send(KeyEvent { code: OsCode::KEY_RESERVED, value: KeyValue::WakeUp });
                }
            }))
        } else {
            None
        };
        if opts2.phase_us > 0 {
            rt::thread::sleep(Duration::from_micros(opts2.phase_us));
        }
        for op in &ops {
            match op {
                Op::Gap(n) => rt::thread::sleep(Duration::from_millis(*n as u64)),
                Op::Press(c) | Op::Release(c) | Op::Repeat(c) => {
                    let Some(osc) = OsCode::from_u16(*c) else { continue };
                    if !mapped.contains(&osc) {
                        continue;
                    }
                    let value = match op {
                        Op::Press(_) => KeyValue::Press,
                        Op::Release(_) => KeyValue::Release,
                        _ => KeyValue::Repeat,
                    };
                    let _ = tx.send(KeyEvent { code: osc, value });
                }
                Op::Vkey(name, act) => {
                    if opts2.tcp_task {
                        let _ = vtx.send((name.clone(), *act));
                    } else {
                        {
                            let mut k = kanata.lock();
                            if let Some(idx) = k.virtual_keys.get(name).copied() {
                                let action = match act & 3 {
                                    0 => FakeKeyAction::Press,
                                    1 => FakeKeyAction::Release,
                                    2 => FakeKeyAction::Tap,
                                    _ => FakeKeyAction::Toggle,
                                };
                                crate::exec_a::tcp_act_on_fake_key(&mut k, action, idx as u16);
                            }
                        }
                        let _ = tx.try_send(KeyEvent { code: OsCode::KEY_RESERVED, value: KeyValue::WakeUp });
                    }
                }
                Op::ChangeLayer(name) => {
                    {
                        let mut k = kanata.lock();
                        k.change_layer(name.clone());
                    }
                    let _ = tx.try_send(KeyEvent { code: OsCode::KEY_RESERVED, value: KeyValue::WakeUp });
                }
                _ => {}
            }
        }
        // end of input: let the TCP task finish, then disconnect the loop's channel so that it exits
        drop(vtx);
        if let Some(h) = tcp {
            let _ = h.join();
        }
        drop(tx);
        // collect what the recorder saw
        let mut notes = vec![];
        while let Ok(mm) = nrx.try_recv() {
            notes.push(format!("{mm:?}"));
        }
        // give the loop a chance to observe the disconnect
        rt::thread::sleep(Duration::from_millis(5));
        let k = kanata.lock();
        let events = k.kbd_out.outputs.events.clone();
        let states = k.layout.b().states.len();
        let dm = format!("{:?}", k.dynamic_macros);
        (events, notes, states, dm)
    });
    let (events, notes, states, dm) = res.ok_or_else(|| format!("simulation aborted: {:?}", report.panics))?;
    let (outs, ticks) = parse_recorder(&events);
    let mut d = DownSet::default();
    for e in &outs {
        d.apply(e);
    }
    let mut down = d.keys.clone();
    down.extend(d.buttons.iter().cloned());
    Ok(BRun { outs, notes, ticks, end_ms: (report.end_ns / 1_000_000), states_at_end: states, down_at_end: down, loop_exited: report.leaked == 0 && !report.deadlock, dynamic_macros: dm, custom_events_dropped: kanata_keyberon::layout::VERIF_CUSTOM_EVENTS_DROPPED.load(std::sync::atomic::Ordering::Relaxed) - dropped0, report })
}
