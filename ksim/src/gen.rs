//! Generators: configuration (as s-expression AST) and histories. Swarm style: every run picks its
//! own subset of features, sizes, fault kinds and rates.

use crate::ops::Op;
use crate::sx::*;
pub use kanata_verif_rt::Rng;

pub trait RngExt {
    fn range(&mut self, lo: u64, hi_incl: u64) -> u64;
    fn chance(&mut self, permille: u64) -> bool;
    fn pick<'a, T>(&mut self, v: &'a [T]) -> &'a T;
    fn pick_w(&mut self, weights: &[u32]) -> usize;
    fn pick_opt<'a, T>(&mut self, v: &'a [T]) -> Option<&'a T>;
    fn shuffle<T>(&mut self, v: &mut [T]);
}
impl RngExt for Rng {
    fn range(&mut self, lo: u64, hi_incl: u64) -> u64 {
        if hi_incl <= lo {
            return lo;
        }
        lo + self.below(hi_incl - lo + 1)
    }
    fn chance(&mut self, permille: u64) -> bool {
        self.below(1000) < permille
    }
    fn pick<'a, T>(&mut self, v: &'a [T]) -> &'a T {
        &v[self.below(v.len() as u64) as usize]
    }
    fn pick_opt<'a, T>(&mut self, v: &'a [T]) -> Option<&'a T> {
        if v.is_empty() {
            None
        } else {
            Some(&v[self.below(v.len() as u64) as usize])
        }
    }
    fn pick_w(&mut self, weights: &[u32]) -> usize {
        let total: u64 = weights.iter().map(|w| *w as u64).sum();
        if total == 0 {
            return 0;
        }
        let mut x = self.below(total);
        for (i, w) in weights.iter().enumerate() {
            if x < *w as u64 {
                return i;
            }
            x -= *w as u64;
        }
        weights.len() - 1
    }
    fn shuffle<T>(&mut self, v: &mut [T]) {
        for i in (1..v.len()).rev() {
            let j = self.below(i as u64 + 1) as usize;
            v.swap(i, j);
        }
    }
}

pub fn splitmix(seed: u64, i: u64) -> u64 {
    let mut z = seed.wrapping_add(i.wrapping_mul(0x9E3779B97F4A7C15)).wrapping_add(0x632BE59BD9B4E019);
    z = (z ^ (z >> 30)).wrapping_mul(0xBF58476D1CE4E5B9);
    z = (z ^ (z >> 27)).wrapping_mul(0x94D049BB133111EB);
    z ^ (z >> 31)
}

// ---------------------------------------------------------------------------------------------
// feature flags
// ---------------------------------------------------------------------------------------------

pub mod feat {
    pub const PLAIN: u64 = 1 << 0;
    pub const CHORD_OUT: u64 = 1 << 1;
    pub const MULTI: u64 = 1 << 2;
    pub const NOOP: u64 = 1 << 3;
    pub const TRANS: u64 = 1 << 4;
    pub const SRC: u64 = 1 << 5;
    pub const LWH: u64 = 1 << 6;
    pub const LSW: u64 = 1 << 7;
    pub const REL_KEY: u64 = 1 << 8;
    pub const REL_LAYER: u64 = 1 << 9;
    pub const TAP_HOLD: u64 = 1 << 10;
    pub const TAP_HOLD_KEYS: u64 = 1 << 11;
    pub const TAP_DANCE: u64 = 1 << 12;
    pub const ONE_SHOT: u64 = 1 << 13;
    pub const MACRO: u64 = 1 << 14;
    pub const UNICODE: u64 = 1 << 15;
    pub const FORK: u64 = 1 << 16;
    pub const SWITCH: u64 = 1 << 17;
    pub const CHORD_V1: u64 = 1 << 18;
    /// unbalanced virtual key operations (press/release/toggle freely) - latching
    pub const VKEY_RAW: u64 = 1 << 19;
    /// balanced virtual key use: tap, press-on-press + release-on-release, hold-for-duration, on-idle tap
    pub const VKEY_BAL: u64 = 1 << 20;
    pub const MOUSE_BTN: u64 = 1 << 21;
    pub const MOUSE_WHEEL: u64 = 1 << 22;
    pub const MOUSE_MOVE: u64 = 1 << 23;
    pub const DYNMACRO: u64 = 1 << 24;
    pub const CAPS_WORD: u64 = 1 << 25;
    pub const SEQ: u64 = 1 << 26;
    pub const UNMOD: u64 = 1 << 27;
    pub const RPT: u64 = 1 << 28;
    pub const ARB_CODE: u64 = 1 << 29;
    pub const PUSH_MSG: u64 = 1 << 30;
    pub const DELAY: u64 = 1 << 31;
    pub const LRLD: u64 = 1 << 32;
    pub const CHORD_V2: u64 = 1 << 33;
    pub const OVERRIDES: u64 = 1 << 34;
    pub const ZIPPY: u64 = 1 << 35;
    pub const TEMPLATES: u64 = 1 << 36;
    pub const OS_PAUSE: u64 = 1 << 37;
    pub const EXTERNAL: u64 = 1 << 38; // cmd / clipboard (parser checks only)
    pub const LAYERMAP: u64 = 1 << 39;
    pub const ALIASES: u64 = 1 << 40;
    pub const SETMOUSE: u64 = 1 << 41;

    pub const ALL_RUNTIME: u64 = (1 << 42) - 1 - EXTERNAL - LRLD - VKEY_RAW;
    pub const LAYER_FRAGMENT: u64 = PLAIN | CHORD_OUT | MULTI | NOOP | TRANS | SRC | LWH | LSW | REL_KEY | REL_LAYER;
}

pub const LETTERS: &[&str] = &[
    "a", "b", "c", "d", "e", "f", "g", "h", "i", "j", "k", "l", "m", "n", "o", "p", "q", "r", "s", "t", "u", "v", "w", "x", "y", "z",
];
pub const MODS: &[&str] = &["lsft", "rsft", "lctl", "rctl", "lalt", "ralt", "lmet", "rmet"];
pub const OTHER_KEYS: &[&str] = &["spc", "bspc", "ent", "esc", "tab", "caps", "1", "2", "3", "4", "5", "f1", "f2", "f3", "f13", "del", "left", "rght", ",", ".", ";", "-"];
pub const MOUSE_IN: &[&str] = &["mlft", "mrgt", "mmid", "mbck", "mfwd", "mwu", "mwd", "mwl", "mwr"];
pub const MOD_PREFIX: &[&str] = &["C-", "S-", "A-", "M-", "RA-", "RC-", "RS-", "RM-", "AG-"];

/// Mouse wheel pseudo-keys arrive as KeyValue::Tap (press+release at once), never as separate
/// press / release / repeat events.
pub fn is_wheel_code(c: u16) -> bool {
    use std::sync::OnceLock;
    static W: OnceLock<Vec<u16>> = OnceLock::new();
    W.get_or_init(|| ["mwu", "mwd", "mwl", "mwr"].iter().map(|n| oscode_of(n)).collect()).contains(&c)
}
pub fn is_mouse_btn_code(c: u16) -> bool {
    use std::sync::OnceLock;
    static W: OnceLock<Vec<u16>> = OnceLock::new();
    W.get_or_init(|| ["mlft", "mrgt", "mmid", "mbck", "mfwd"].iter().map(|n| oscode_of(n)).collect()).contains(&c)
}

pub fn oscode_of(name: &str) -> u16 {
    kanata_parser::keys::str_to_oscode(name).map(|o| o.as_u16()).unwrap_or(0)
}

/// Boundary-biased number.
pub fn bnum(r: &mut Rng, min: u64, max: u64, around: &[u64]) -> u64 {
    let mut cands: Vec<u64> = vec![min, min + 1, 2, 5, 10, 20, 50, 100, 200, 255, 256, 500, 1000, 2303, 2304, 5000, 10000, 30000, 65534, 65535, max];
    for a in around {
        cands.push(a.saturating_sub(1));
        cands.push(*a);
        cands.push(a + 1);
    }
    cands.retain(|c| *c >= min && *c <= max);
    if cands.is_empty() || r.chance(150) {
        r.range(min, max)
    } else {
        *r.pick(&cands)
    }
}

/// Small timeouts mostly (so that histories can cross them cheaply), occasionally large.
pub fn timeout(r: &mut Rng) -> u64 {
    match r.pick_w(&[30, 30, 20, 10, 5, 3, 2]) {
        0 => r.range(1, 5),
        1 => r.range(5, 50),
        2 => r.range(50, 300),
        3 => *r.pick(&[1, 2, 255, 256, 1000]),
        4 => r.range(300, 3000),
        5 => *r.pick(&[2303, 2304, 10000, 30000]),
        _ => *r.pick(&[65534, 65535, 60000]),
    }
}

#[derive(Clone, Debug, Default)]
pub struct CfgSpec {
    pub defcfg: Vec<(String, SX)>,
    pub src: Vec<String>,
    /// deflayer: name, one action per src key
    pub layers: Vec<(String, Vec<SX>)>,
    /// deflayermap: name, (input, action) pairs
    pub layermaps: Vec<(String, Vec<(SX, SX)>)>,
    pub vkeys: Vec<(String, SX)>,
    pub aliases: Vec<(String, SX)>,
    pub top_before_layers: Vec<SX>,
    pub top_after_layers: Vec<SX>,
    pub files: Vec<(String, String)>,
    /// timeouts present in the config (for boundary-biased gaps)
    pub timeouts: Vec<u64>,
}

impl CfgSpec {
    pub fn forms(&self) -> Vec<SX> {
        let mut out = vec![];
        if !self.defcfg.is_empty() {
            let mut v = vec![a("defcfg")];
            for (k, val) in &self.defcfg {
                v.push(a(k.clone()));
                v.push(val.clone());
            }
            out.push(l(v));
        }
        out.push(call("defsrc", self.src.iter().map(|s| a(s.clone())).collect()));
        out.extend(self.top_before_layers.iter().cloned());
        if !self.vkeys.is_empty() {
            let mut v = vec![a("defvirtualkeys")];
            for (n, ac) in &self.vkeys {
                v.push(a(n.clone()));
                v.push(ac.clone());
            }
            out.push(l(v));
        }
        if !self.aliases.is_empty() {
            let mut v = vec![a("defalias")];
            for (n, ac) in &self.aliases {
                v.push(a(n.clone()));
                v.push(ac.clone());
            }
            out.push(l(v));
        }
        for (name, acts) in &self.layers {
            let mut v = vec![a("deflayer"), a(name.clone())];
            v.extend(acts.iter().cloned());
            out.push(l(v));
        }
        for (name, pairs) in &self.layermaps {
            let mut v = vec![a("deflayermap"), l(vec![a(name.clone())])];
            for (k, ac) in pairs {
                v.push(k.clone());
                v.push(ac.clone());
            }
            out.push(l(v));
        }
        out.extend(self.top_after_layers.iter().cloned());
        out
    }
    pub fn to_text(&self) -> String {
        print_top(&self.forms())
    }
    pub fn layer_names(&self) -> Vec<String> {
        self.layers.iter().map(|l| l.0.clone()).chain(self.layermaps.iter().map(|l| l.0.clone())).collect()
    }
}

/// Action generator context.
pub struct ActGen<'a> {
    pub r: &'a mut Rng,
    pub feats: u64,
    pub src: Vec<String>,
    pub outs: Vec<String>,
    pub layers: Vec<String>,
    pub vkeys: Vec<String>,
    pub chord_groups: Vec<(String, Vec<String>)>,
    pub aliases_defined: Vec<String>,
    pub timeouts: Vec<u64>,
    pub max_depth: usize,
    /// generate things the parser may reject (wrong contexts, nested waiting actions)
    pub hostile: bool,
    /// context: inside the tap action of a tap-hold (tap-hold not allowed there)
    pub no_taphold: u32,
    /// context: waiting actions (tap-hold / tap-dance / chord) not allowed (already one in this multi)
    pub no_waiting: u32,
    /// context: inside defvirtualkeys (no references to virtual keys / aliases)
    pub in_vkey_def: bool,
}

impl<'a> ActGen<'a> {
    fn has(&self, f: u64) -> bool {
        self.feats & f != 0
    }
    pub fn out_key(&mut self) -> String {
        self.r.pick(&self.outs).clone()
    }
    fn t(&mut self) -> u64 {
        let t = timeout(self.r);
        self.timeouts.push(t);
        t
    }
    pub fn key_atom(&mut self) -> SX {
        a(self.out_key())
    }
    pub fn chord_out(&mut self) -> SX {
        let n = self.r.range(1, 3);
        let mut s = String::new();
        let mut used = vec![];
        for _ in 0..n {
            let p = *self.r.pick(MOD_PREFIX);
            if !used.contains(&p) {
                used.push(p);
                s.push_str(p);
            }
        }
        s.push_str(&self.out_key());
        a(s)
    }
    fn layer(&mut self) -> SX {
        a(self.r.pick(&self.layers).clone())
    }
    fn simple(&mut self) -> SX {
        let mut opts: Vec<u32> = vec![];
        let f = [feat::PLAIN, feat::CHORD_OUT, feat::NOOP, feat::TRANS, feat::SRC];
        let w = [10, 4, 2, 3, 1];
        for (i, ff) in f.iter().enumerate() {
            opts.push(if self.has(*ff) { w[i] } else { 0 });
        }
        if opts.iter().all(|x| *x == 0) {
            return self.key_atom();
        }
        match self.r.pick_w(&opts) {
            0 => self.key_atom(),
            1 => self.chord_out(),
            2 => a("XX"),
            3 => a("_"),
            _ => a("use-defsrc"),
        }
    }

    pub fn macro_items(&mut self, depth: usize) -> Vec<SX> {
        let n = self.r.range(1, 6);
        let mut v = vec![];
        for _ in 0..n {
            match self.r.pick_w(&[10, 4, 3, 2, 1, 1]) {
                0 => v.push(self.key_atom()),
                1 => v.push(num(self.r.range(1, 40))),
                2 => v.push(self.chord_out()),
                3 => {
                    if depth < 2 {
                        // S-(a b) group: the lexer splits `S-(a b)` into the atom `S-` and a list
                        let p = *self.r.pick(MOD_PREFIX);
                        let inner = self.macro_items(depth + 1);
                        v.push(a(p));
                        v.push(SX::L(inner));
                    } else {
                        v.push(self.key_atom());
                    }
                }
                4 => {
                    if self.has(feat::UNICODE) {
                        v.push(call("unicode", vec![a(*self.r.pick(&["ü", "é", "λ", "a", "😀"]))]));
                    } else {
                        v.push(self.key_atom());
                    }
                }
                _ => {
                    if self.has(feat::VKEY_BAL) && !self.vkeys.is_empty() {
                        let vk = self.r.pick(&self.vkeys).clone();
                        v.push(call("on-press", vec![a("tap-vkey"), a(vk)]));
                    } else {
                        v.push(num(self.r.range(1, 10)));
                    }
                }
            }
        }
        v
    }

    pub fn action(&mut self, depth: usize) -> SX {
        if depth >= self.max_depth {
            return self.simple();
        }
        // (feature, weight)
        let table: &[(u64, u32)] = &[
            (feat::PLAIN, 14),
            (feat::CHORD_OUT, 5),
            (feat::NOOP, 2),
            (feat::TRANS, 4),
            (feat::SRC, 1),
            (feat::MULTI, 5),
            (feat::LWH, 6),
            (feat::LSW, 3),
            (feat::REL_KEY, 2),
            (feat::REL_LAYER, 2),
            (feat::TAP_HOLD, 8),
            (feat::TAP_HOLD_KEYS, 3),
            (feat::TAP_DANCE, 4),
            (feat::ONE_SHOT, 6),
            (feat::MACRO, 6),
            (feat::UNICODE, 1),
            (feat::FORK, 3),
            (feat::SWITCH, 3),
            (feat::CHORD_V1, 4),
            (feat::VKEY_RAW, 3),
            (feat::VKEY_BAL, 4),
            (feat::MOUSE_BTN, 2),
            (feat::MOUSE_WHEEL, 2),
            (feat::MOUSE_MOVE, 2),
            (feat::DYNMACRO, 3),
            (feat::CAPS_WORD, 2),
            (feat::SEQ, 2),
            (feat::UNMOD, 2),
            (feat::RPT, 1),
            (feat::ARB_CODE, 1),
            (feat::PUSH_MSG, 1),
            (feat::DELAY, 1),
            (feat::LRLD, 1),
            (feat::OS_PAUSE, 1),
            (feat::EXTERNAL, 1),
            (feat::ALIASES, 2),
            (feat::SETMOUSE, 1),
        ];
        let strict = !self.hostile || !self.r.chance(30);
        let w: Vec<u32> = table
            .iter()
            .map(|(f, w)| {
                if !self.has(*f) {
                    return 0;
                }
                if strict {
                    let waiting = matches!(*f, feat::TAP_HOLD | feat::TAP_HOLD_KEYS | feat::TAP_DANCE | feat::CHORD_V1);
                    if waiting && self.no_waiting > 0 {
                        return 0;
                    }
                    if matches!(*f, feat::TAP_HOLD | feat::TAP_HOLD_KEYS) && self.no_taphold > 0 {
                        return 0;
                    }
                    if self.in_vkey_def && matches!(*f, feat::VKEY_RAW | feat::VKEY_BAL | feat::ALIASES | feat::SEQ) {
                        return 0;
                    }
                }
                *w
            })
            .collect();
        if w.iter().all(|x| *x == 0) {
            return self.simple();
        }
        let f = table[self.r.pick_w(&w)].0;
        let d = depth + 1;
        match f {
            feat::PLAIN => self.key_atom(),
            feat::CHORD_OUT => self.chord_out(),
            feat::NOOP => a(*self.r.pick(&["XX", "XX", "nop0", "nop5"])),
            feat::TRANS => a("_"),
            feat::SRC => a("use-defsrc"),
            feat::MULTI => {
                let n = self.r.range(2, 4);
                let mut v: Vec<SX> = vec![];
                let w_at = self.r.below(n);
                for i in 0..n {
                    if i != w_at {
                        self.no_waiting += 1;
                    }
                    v.push(self.action(d));
                    if i != w_at {
                        self.no_waiting -= 1;
                    }
                }
                if self.r.chance(100) {
                    v.push(a("reverse-release-order"));
                }
                call("multi", v)
            }
            feat::LWH => call(*self.r.pick(&["layer-while-held", "layer-toggle"]), vec![self.layer()]),
            feat::LSW => call("layer-switch", vec![self.layer()]),
            feat::REL_KEY => call("release-key", vec![self.key_atom()]),
            feat::REL_LAYER => call("release-layer", vec![self.layer()]),
            feat::TAP_HOLD => {
                let variant = self.r.pick_w(&[4, 3, 3, 2, 2]);
                let t1 = if self.r.chance(400) { 0 } else { self.t() };
                let t2 = self.t();
                self.no_taphold += 1;
                let tap = self.action(d);
                self.no_taphold -= 1;
                let hold = self.action(d);
                match variant {
                    0 => call("tap-hold", vec![num(t1), num(t2), tap, hold]),
                    1 => call("tap-hold-press", vec![num(t1), num(t2), tap, hold]),
                    2 => call("tap-hold-release", vec![num(t1), num(t2), tap, hold]),
                    3 => {
                        let to = self.action(d);
                        call("tap-hold-press-timeout", vec![num(t1), num(t2), tap, hold, to])
                    }
                    _ => {
                        let to = self.action(d);
                        call("tap-hold-release-timeout", vec![num(t1), num(t2), tap, hold, to])
                    }
                }
            }
            feat::TAP_HOLD_KEYS => {
                let t1 = if self.r.chance(400) { 0 } else { self.t() };
                let t2 = self.t();
                self.no_taphold += 1;
                let tap = self.action(d);
                self.no_taphold -= 1;
                let hold = self.action(d);
                let n = self.r.range(0, 3);
                let keys: Vec<SX> = (0..n).map(|_| a(self.r.pick(&self.src).clone())).collect();
                call(*self.r.pick(&["tap-hold-release-keys", "tap-hold-except-keys"]), vec![num(t1), num(t2), tap, hold, l(keys)])
            }
            feat::TAP_DANCE => {
                let t = self.t();
                let n = self.r.range(1, 4);
                let acts: Vec<SX> = (0..n).map(|_| self.action(d)).collect();
                call(*self.r.pick(&["tap-dance", "tap-dance-eager"]), vec![num(t), l(acts)])
            }
            feat::ONE_SHOT => {
                let t = self.t();
                let ac = if !self.hostile || self.r.chance(970) { self.oneshot_payload() } else { self.action(d) };
                call(
                    *self.r.pick(&["one-shot", "one-shot-press", "one-shot-release", "one-shot-press-pcancel", "one-shot-release-pcancel"]),
                    vec![num(t), ac],
                )
            }
            feat::MACRO => {
                let items = self.macro_items(0);
                let name = *self.r.pick(&[
                    "macro",
                    "macro",
                    "macro-repeat",
                    "macro-release-cancel",
                    "macro-repeat-release-cancel",
                    "macro-cancel-on-press",
                    "macro-repeat-cancel-on-press",
                    "macro-release-cancel-and-cancel-on-press",
                    "macro-repeat-release-cancel-and-cancel-on-press",
                ]);
                call(name, items)
            }
            feat::UNICODE => call("unicode", vec![a(*self.r.pick(&["ü", "é", "λ", "r#\"(\"#", "😀"]))]),
            feat::FORK => {
                let l_ = self.action(d);
                let r_ = self.action(d);
                let n = self.r.range(1, 3);
                let keys: Vec<SX> = (0..n).map(|_| a(self.out_key())).collect();
                call("fork", vec![l_, r_, l(keys)])
            }
            feat::SWITCH => self.switch(d),
            feat::CHORD_V1 => {
                if self.chord_groups.is_empty() {
                    return self.simple();
                }
                let gi = self.r.below(self.chord_groups.len() as u64) as usize;
                let g = &self.chord_groups[gi];
                let key = self.r.pick(&g.1).clone();
                call("chord", vec![a(g.0.clone()), a(key)])
            }
            feat::VKEY_RAW => {
                if self.vkeys.is_empty() {
                    return self.simple();
                }
                let vk = self.r.pick(&self.vkeys).clone();
                let op = *self.r.pick(&["press-vkey", "release-vkey", "tap-vkey", "toggle-vkey"]);
                match self.r.pick_w(&[4, 3, 2, 2]) {
                    0 => call("on-press", vec![a(op), a(vk)]),
                    1 => call("on-release", vec![a(op), a(vk)]),
                    2 => call("on-press-fakekey", vec![a(vk), a(*self.r.pick(&["press", "release", "tap", "toggle"]))]),
                    _ => call("on-release-fakekey", vec![a(vk), a(*self.r.pick(&["press", "release", "tap", "toggle"]))]),
                }
            }
            feat::VKEY_BAL => {
                if self.vkeys.is_empty() {
                    return self.simple();
                }
                let vk = self.r.pick(&self.vkeys).clone();
                match self.r.pick_w(&[4, 3, 3, 3, 1]) {
                    0 => call("on-press", vec![a("tap-vkey"), a(vk)]),
                    1 => call("on-release", vec![a("tap-vkey"), a(vk)]),
                    2 => call(
                        "multi",
                        vec![call("on-press", vec![a("press-vkey"), a(vk.clone())]), call("on-release", vec![a("release-vkey"), a(vk)])],
                    ),
                    3 => {
                        let t = self.t();
                        call("hold-for-duration", vec![num(t.max(1)), a(vk)])
                    }
                    _ => {
                        let t = self.t();
                        call("on-idle", vec![num(t.max(1)), a("tap-vkey"), a(vk)])
                    }
                }
            }
            feat::MOUSE_BTN => a(*self.r.pick(&["mlft", "mrgt", "mmid", "mbck", "mfwd", "mltp", "mrtp", "mmtp"])),
            feat::MOUSE_WHEEL => {
                if self.r.chance(300) {
                    a(*self.r.pick(&["mwu", "mwd", "mwl", "mwr"]))
                } else {
                    let iv = bnum(self.r, 1, 65535, &[]);
                    let dist = bnum(self.r, 1, 30000, &[]);
                    call(*self.r.pick(&["mwheel-up", "mwheel-down", "mwheel-left", "mwheel-right"]), vec![num(iv), num(dist)])
                }
            }
            feat::MOUSE_MOVE => {
                let dir = *self.r.pick(&["up", "down", "left", "right"]);
                match self.r.pick_w(&[4, 3, 2]) {
                    0 => {
                        let iv = bnum(self.r, 1, 65535, &[]);
                        let dist = bnum(self.r, 1, 30000, &[]);
                        call(&format!("movemouse-{dir}"), vec![num(iv), num(dist)])
                    }
                    1 => {
                        let iv = bnum(self.r, 1, 65535, &[]);
                        let at = bnum(self.r, 1, 65535, &[]);
                        let mn = bnum(self.r, 1, 30000, &[]);
                        let mx = bnum(self.r, mn, 30000, &[]);
                        call(&format!("movemouse-accel-{dir}"), vec![num(iv), num(at), num(mn), num(mx)])
                    }
                    _ => call("movemouse-speed", vec![num(bnum(self.r, 1, 65535, &[]))]),
                }
            }
            feat::SETMOUSE => call("setmouse", vec![num(self.r.range(0, 65535)), num(self.r.range(0, 65535))]),
            feat::DYNMACRO => match self.r.pick_w(&[3, 3, 2, 2]) {
                0 => call("dynamic-macro-record", vec![num(self.r.range(0, 3))]),
                1 => call("dynamic-macro-play", vec![num(self.r.range(0, 3))]),
                2 => a("dynamic-macro-record-stop"),
                _ => call("dynamic-macro-record-stop-truncate", vec![num(self.r.range(0, 5))]),
            },
            feat::CAPS_WORD => {
                let t = self.t();
                match self.r.pick_w(&[3, 1, 2, 1]) {
                    0 => call("caps-word", vec![num(t)]),
                    1 => call("caps-word-toggle", vec![num(t)]),
                    2 => {
                        let k1: Vec<SX> = (0..self.r.range(1, 3)).map(|_| a(self.out_key())).collect();
                        let k2: Vec<SX> = (0..self.r.range(0, 3)).map(|_| a(self.out_key())).collect();
                        call("caps-word-custom", vec![num(t), l(k1), l(k2)])
                    }
                    _ => {
                        let k1: Vec<SX> = (0..self.r.range(1, 3)).map(|_| a(self.out_key())).collect();
                        let k2: Vec<SX> = (0..self.r.range(0, 3)).map(|_| a(self.out_key())).collect();
                        call("caps-word-custom-toggle", vec![num(t), l(k1), l(k2)])
                    }
                }
            }
            feat::SEQ => match self.r.pick_w(&[4, 3, 1, 1]) {
                0 => a("sldr"),
                1 => {
                    let t = self.t();
                    let mut v = vec![num(t.max(1))];
                    if self.r.chance(600) {
                        v.push(a(*self.r.pick(&["visible-backspaced", "hidden-suppressed", "hidden-delay-type"])));
                    }
                    call("sequence", v)
                }
                2 => a("scnl"),
                _ => call("sequence-noerase", vec![num(self.r.range(1, 4))]),
            },
            feat::UNMOD => {
                let n = self.r.range(1, 2);
                let mut v: Vec<SX> = vec![];
                if self.r.chance(300) {
                    let m: Vec<SX> = (0..self.r.range(1, 2)).map(|_| a(*self.r.pick(MODS))).collect();
                    v.push(l(m));
                }
                for _ in 0..n {
                    v.push(self.key_atom());
                }
                if self.r.chance(300) {
                    call("unshift", v.into_iter().filter(|x| x.is_atom()).collect())
                } else {
                    call("unmod", v)
                }
            }
            feat::RPT => a(*self.r.pick(&["rpt", "rpt-any"])),
            feat::ARB_CODE => call("arbitrary-code", vec![num(self.r.range(0, 767))]),
            feat::PUSH_MSG => call("push-msg", vec![a("hello"), l(vec![a("x"), a("y")])]),
            feat::DELAY => {
                let d_ = bnum(self.r, 0, 65535, &[]);
                call(*self.r.pick(&["on-press-delay", "on-release-delay", "on-press-fakekey-delay", "on-release-fakekey-delay"]), vec![num(d_)])
            }
            feat::LRLD => match self.r.pick_w(&[3, 1, 1, 1]) {
                0 => a("lrld"),
                1 => a("lrld-next"),
                2 => a("lrld-prev"),
                _ => call("lrld-num", vec![num(self.r.range(1, 3))]),
            },
            feat::OS_PAUSE => call("one-shot-pause-processing", vec![num(bnum(self.r, 0, 65535, &[]))]),
            feat::EXTERNAL => match self.r.pick_w(&[2, 2, 1, 1, 1]) {
                0 => call("clipboard-set", vec![a("text")]),
                1 => call("clipboard-save", vec![num(self.r.range(0, 3))]),
                2 => call("clipboard-restore", vec![num(self.r.range(0, 3))]),
                3 => call("clipboard-save-swap", vec![num(0), num(1)]),
                _ => call("cmd", vec![a("true")]),
            },
            feat::ALIASES => {
                if self.aliases_defined.is_empty() {
                    self.simple()
                } else {
                    a(format!("@{}", self.r.pick(&self.aliases_defined)))
                }
            }
            _ => self.simple(),
        }
    }

    fn oneshot_payload(&mut self) -> SX {
        if self.has(feat::LWH) && self.r.chance(300) {
            call("layer-while-held", vec![self.layer()])
        } else if self.r.chance(400) {
            a(*self.r.pick(MODS))
        } else if self.has(feat::CHORD_OUT) && self.r.chance(200) {
            self.chord_out()
        } else {
            self.key_atom()
        }
    }

    fn simple_or_layer(&mut self) -> SX {
        if self.has(feat::LWH) && self.r.chance(300) {
            call("layer-while-held", vec![self.layer()])
        } else if self.r.chance(400) {
            a(*self.r.pick(MODS))
        } else {
            self.simple()
        }
    }

    pub fn bool_expr(&mut self, depth: usize) -> SX {
        if depth >= 3 || self.r.chance(350) {
            // leaf
            return match self.r.pick_w(&[6, 3, 3, 2, 2, 2, 2]) {
                0 => self.key_atom(),
                1 => call("key-history", vec![self.key_atom(), num(self.r.range(1, 8))]),
                2 => {
                    let cmp = *self.r.pick(&["less-than", "greater-than", "lt", "gt"]);
                    call("key-timing", vec![num(self.r.range(1, 8)), a(cmp), num(bnum(self.r, 0, 65535, &[255, 2303]))])
                }
                3 => {
                    let (k, n) = self.input_name();
                    call("input", vec![a(k), n])
                }
                4 => {
                    let (k, n) = self.input_name();
                    call("input-history", vec![a(k), n, num(self.r.range(1, 8))])
                }
                5 => call("layer", vec![self.layer()]),
                _ => call("base-layer", vec![self.layer()]),
            };
        }
        let op = *self.r.pick(&["and", "or", "not"]);
        let n = self.r.range(1, 3);
        let v: Vec<SX> = (0..n).map(|_| self.bool_expr(depth + 1)).collect();
        call(op, v)
    }

    fn input_name(&mut self) -> (&'static str, SX) {
        if !self.vkeys.is_empty() && !self.in_vkey_def && self.r.chance(300) {
            ("virtual", a(self.r.pick(&self.vkeys).clone()))
        } else {
            ("real", a(self.r.pick(&self.src).clone()))
        }
    }

    pub fn switch(&mut self, d: usize) -> SX {
        let n = self.r.range(1, 4);
        let mut v = vec![];
        for _ in 0..n {
            let cond = l((0..self.r.range(0, 2)).map(|_| self.bool_expr(0)).collect());
            v.push(cond);
            v.push(self.action(d));
            v.push(a(*self.r.pick(&["break", "fallthrough"])));
        }
        call("switch", v)
    }
}

pub fn fix_prefix_groups(text: &str) -> String {
    text.to_string()
}

// ---------------------------------------------------------------------------------------------
// general configuration generator
// ---------------------------------------------------------------------------------------------

pub struct GenOpts {
    pub feats: u64,
    pub max_keys: usize,
    pub max_layers: usize,
    pub max_depth: usize,
    pub hostile: bool,
}

pub fn gen_general(r: &mut Rng, o: &GenOpts) -> CfgSpec {
    let mut spec = CfgSpec::default();
    // swarm: random subset of the allowed features (always keep PLAIN)
    let mut feats = feat::PLAIN;
    let keep_permille = *r.pick(&[300u64, 500, 700, 900]);
    for b in 0..42 {
        let f = 1u64 << b;
        if o.feats & f != 0 && r.chance(keep_permille) {
            feats |= f;
        }
    }
    // physical keys
    let nkeys = r.range(2, o.max_keys as u64) as usize;
    let mut pool: Vec<&str> = LETTERS[..12].to_vec();
    pool.extend_from_slice(&["lsft", "lctl", "spc", "bspc", "1", "rsft"]);
    if feats & (feat::MOUSE_BTN | feat::MOUSE_WHEEL) != 0 {
        pool.extend_from_slice(&["mlft", "mwu", "mwd"]);
    }
    r.shuffle(&mut pool);
    spec.src = pool[..nkeys.min(pool.len())].iter().map(|s| s.to_string()).collect();
    // output keys
    let mut outs: Vec<String> = vec![];
    for k in LETTERS.iter().take(20) {
        outs.push(k.to_string());
    }
    for k in MODS {
        outs.push(k.to_string());
    }
    for k in OTHER_KEYS {
        outs.push(k.to_string());
    }
    r.shuffle(&mut outs);
    outs.truncate(r.range(4, 16) as usize);
    if r.chance(500) {
        outs.push("lsft".into());
    }
    // layers
    let nl = r.range(1, o.max_layers as u64) as usize;
    let layer_names: Vec<String> = (0..nl).map(|i| format!("l{i}")).collect();
    // virtual keys
    let nv = if feats & (feat::VKEY_RAW | feat::VKEY_BAL) != 0 { r.range(1, 3) as usize } else { 0 };
    let vkeys: Vec<String> = (0..nv).map(|i| format!("vk{i}")).collect();
    // chords v1 groups
    let mut chord_groups: Vec<(String, Vec<String>)> = vec![];
    if feats & feat::CHORD_V1 != 0 {
        let ng = r.range(1, 2);
        for gi in 0..ng {
            let nk = (r.range(2, 4) as usize).min(spec.src.len());
            let keys: Vec<String> = spec.src.iter().take(nk).cloned().collect();
            chord_groups.push((format!("cg{gi}"), keys));
            if gi == 0 {
                break;
            }
        }
    }
    let mut g = ActGen {
        r,
        feats,
        src: spec.src.clone(),
        outs,
        layers: layer_names.clone(),
        vkeys: vkeys.clone(),
        chord_groups: chord_groups.clone(),
        aliases_defined: vec![],
        timeouts: vec![],
        max_depth: o.max_depth,
        hostile: o.hostile,
        no_taphold: 0,
        no_waiting: 0,
        in_vkey_def: false,
    };
    // defcfg
    let mut defcfg: Vec<(String, SX)> = vec![];
    if g.r.chance(600) {
        if g.r.chance(200) {
            let ex: Vec<SX> = (0..g.r.range(1, 2)).map(|_| a(*g.r.pick(&["f5", "f6", "home"]))).collect();
            defcfg.push(("process-unmapped-keys".into(), l(vec![a("all-except"), ex[0].clone()])));
        } else {
            defcfg.push(("process-unmapped-keys".into(), a(*g.r.pick(&["yes", "no"]))));
        }
    }
    if g.r.chance(150) {
        defcfg.push(("block-unmapped-keys".into(), a("yes")));
    }
    if g.r.chance(300) {
        defcfg.push(("delegate-to-first-layer".into(), a(*g.r.pick(&["yes", "no"]))));
    }
    if g.r.chance(400) {
        defcfg.push(("transparent-key-resolution".into(), a(*g.r.pick(&["to-base-layer", "layer-stack"]))));
    }
    let need_cth = feats & feat::CHORD_V2 != 0;
    if need_cth || g.r.chance(300) {
        defcfg.push(("concurrent-tap-hold".into(), a(if need_cth { "yes" } else { *g.r.pick(&["yes", "no"]) })));
    }
    if g.r.chance(500) {
        defcfg.push(("rapid-event-delay".into(), num(*g.r.pick(&[0, 1, 5, 20, 100]))));
    }
    if feats & feat::OVERRIDES != 0 && g.r.chance(400) {
        defcfg.push(("override-release-on-activation".into(), a(*g.r.pick(&["yes", "no"]))));
    }
    if feats & feat::SEQ != 0 {
        if g.r.chance(500) {
            let t = timeout(g.r).max(1);
            g.timeouts.push(t);
            defcfg.push(("sequence-timeout".into(), num(t)));
        }
        if g.r.chance(500) {
            defcfg.push(("sequence-input-mode".into(), a(*g.r.pick(&["visible-backspaced", "hidden-suppressed", "hidden-delay-type"]))));
        }
        if g.r.chance(150) {
            defcfg.push(("sequence-always-on".into(), a("yes")));
        }
        if g.r.chance(200) {
            defcfg.push(("sequence-backtrack-modcancel".into(), a(*g.r.pick(&["yes", "no"]))));
        }
    }
    if feats & feat::DYNMACRO != 0 {
        if g.r.chance(400) {
            defcfg.push(("dynamic-macro-max-presses".into(), num(bnum(g.r, 1, 65535, &[]))));
        }
        if g.r.chance(400) {
            defcfg.push(("dynamic-macro-replay-delay-behaviour".into(), a(*g.r.pick(&["constant", "recorded"]))));
        }
    }
    if feats & feat::MOUSE_MOVE != 0 {
        if g.r.chance(300) {
            defcfg.push(("movemouse-smooth-diagonals".into(), a("yes")));
        }
        if g.r.chance(300) {
            defcfg.push(("movemouse-inherit-accel-state".into(), a("yes")));
        }
    }
    if feats & feat::CHORD_V2 != 0 && g.r.chance(400) {
        defcfg.push(("chords-v2-min-idle".into(), num(bnum(g.r, 5, 65535, &[5, 6, 50]))));
    }
    if g.r.chance(200) {
        defcfg.push(("allow-hardware-repeat".into(), a(*g.r.pick(&["yes", "no"]))));
    }
    spec.defcfg = defcfg;
    // virtual keys definitions (no aliases, usually simple)
    g.in_vkey_def = true;
    // virtual key actions must not (transitively) operate virtual keys: a self-retriggering
    // virtual key is a deliberate perpetual-motion config, not a property of kanata
    let saved_feats = g.feats;
    if !o.hostile {
        g.feats &= feat::PLAIN | feat::CHORD_OUT | feat::LWH | feat::MULTI | feat::UNICODE | feat::MOUSE_BTN | feat::NOOP | feat::ONE_SHOT | feat::REL_KEY | feat::UNMOD | feat::ARB_CODE | feat::CAPS_WORD | feat::LSW;
    }
    for vk in &vkeys {
        let ac = if g.r.chance(600) { g.simple_or_layer() } else { g.action(g.max_depth.saturating_sub(1)) };
        spec.vkeys.push((vk.clone(), ac));
    }
    g.in_vkey_def = false;
    g.feats = saved_feats;
    // aliases
    if feats & feat::ALIASES != 0 {
        let na = g.r.range(1, 3);
        for i in 0..na {
            let ac = g.action(1);
            spec.aliases.push((format!("al{i}"), ac));
            g.aliases_defined.push(format!("al{i}"));
        }
    }
    // layers
    let use_map = feats & feat::LAYERMAP != 0;
    for (li, name) in layer_names.iter().enumerate() {
        if use_map && li > 0 && g.r.chance(400) {
            let mut pairs = vec![];
            for k in spec.src.clone().iter() {
                if g.r.chance(600) {
                    pairs.push((a(k.clone()), g.action(0)));
                }
            }
            if g.r.chance(300) {
                let pum = spec.defcfg.iter().any(|(k, v)| k == "process-unmapped-keys" && v.atom() == Some("yes"));
                let which: &[&str] = if pum { &["_", "__", "___"] } else { &["_"] };
                pairs.push((a(*g.r.pick(which)), g.action(1)));
            }
            spec.layermaps.push((name.clone(), pairs));
        } else {
            let mut acts: Vec<SX> = (0..spec.src.len()).map(|_| g.action(0)).collect();
            if li == 0 {
                // every identifier of a chord group must be bound somewhere
                if let Some((gname, keys)) = chord_groups.first() {
                    for (i, k) in keys.iter().enumerate() {
                        acts[i] = call("chord", vec![a(gname.clone()), a(k.clone())]);
                    }
                }
            }
            spec.layers.push((name.clone(), acts));
        }
    }
    if spec.layers.is_empty() {
        // first layer must exist as deflayer for simplicity
        let (name, _) = spec.layermaps.remove(0);
        let acts: Vec<SX> = (0..spec.src.len()).map(|_| g.action(0)).collect();
        spec.layers.push((name, acts));
    }
    // chords v1 definitions
    for (gname, keys) in &chord_groups {
        let t = timeout(g.r).max(1);
        g.timeouts.push(t);
        let mut v = vec![a("defchords"), a(gname.clone()), num(t)];
        // singles
        for k in keys {
            v.push(l(vec![a(k.clone())]));
            v.push(g.action(1));
        }
        // combos
        let nc = g.r.range(1, 3);
        let mut seen: Vec<Vec<String>> = vec![];
        for _ in 0..nc {
            let mut ks = keys.clone();
            g.r.shuffle(&mut ks);
            ks.truncate(g.r.range(2, keys.len() as u64) as usize);
            ks.sort();
            if seen.contains(&ks) {
                continue;
            }
            seen.push(ks.clone());
            v.push(l(ks.iter().map(|k| a(k.clone())).collect()));
            v.push(g.action(1));
        }
        spec.top_after_layers.push(l(v));
    }
    // chords v2
    if feats & feat::CHORD_V2 != 0 && spec.src.len() >= 2 {
        let n = g.r.range(1, 4);
        let mut v = vec![a("defchordsv2")];
        let mut seen: Vec<Vec<String>> = vec![];
        for _ in 0..n {
            let mut ks = spec.src.clone();
            g.r.shuffle(&mut ks);
            ks.truncate(g.r.range(2, 3.min(ks.len() as u64)) as usize);
            let mut sorted = ks.clone();
            sorted.sort();
            if seen.contains(&sorted) {
                continue;
            }
            seen.push(sorted);
            v.push(l(ks.iter().map(|k| a(k.clone())).collect()));
            let saved = g.feats;
            g.feats &= !(feat::TRANS);
            v.push(g.action(1));
            g.feats = saved;
            let t = timeout(g.r).max(1);
            g.timeouts.push(t);
            v.push(num(t));
            v.push(a(*g.r.pick(&["first-release", "all-released"])));
            let dl: Vec<SX> = if g.r.chance(300) { vec![a(g.r.pick(&layer_names).clone())] } else { vec![] };
            v.push(l(dl));
        }
        if v.len() > 1 {
            spec.top_after_layers.push(l(v));
        }
    }
    if spec.top_after_layers.iter().any(|f| f.head() == Some("defoverrides") && f.list().map(|v| v.len() == 1).unwrap_or(false)) {
        spec.top_after_layers.retain(|f| f.head() != Some("defoverrides"));
    }
    // sequences
    if feats & feat::SEQ != 0 && !vkeys.is_empty() {
        let n = g.r.range(1, 3);
        let mut v = vec![a("defseq")];
        for i in 0..n {
            let vk = g.r.pick(&vkeys).clone();
            let len = g.r.range(1, 3);
            let mut ks: Vec<SX> = vec![];
            // make each sequence start with a distinct key to avoid prefix conflicts mostly
            ks.push(a(LETTERS[(i as usize) % 26]));
            for _ in 0..len {
                ks.push(a(g.out_key()));
            }
            v.push(a(vk));
            v.push(l(ks));
        }
        spec.top_after_layers.push(l(v));
    }
    // overrides
    if feats & feat::OVERRIDES != 0 {
        let n = g.r.range(1, 3);
        let mut v = vec![a("defoverrides")];
        for _ in 0..n {
            let m = *g.r.pick(MODS);
            let nonmods: Vec<String> = g.outs.iter().filter(|k| !MODS.contains(&k.as_str())).cloned().collect();
            if nonmods.is_empty() {
                continue;
            }
            let k = g.r.pick(&nonmods).clone();
            let mut inp = vec![a(m), a(k)];
            if g.r.chance(200) {
                inp.insert(0, a(*g.r.pick(MODS)));
            }
            let mut outp = vec![];
            if g.r.chance(400) {
                outp.push(a(*g.r.pick(MODS)));
            }
            outp.push(a(g.r.pick(&nonmods).clone()));
            v.push(l(inp));
            v.push(l(outp));
        }
        spec.top_after_layers.push(l(v));
    }
    // zippychord
    if feats & feat::ZIPPY != 0 {
        let (form, file) = gen_zippy(g.r, &spec.src);
        spec.top_after_layers.push(form);
        spec.files.push(("zippy.txt".into(), file));
    }
    spec.timeouts = g.timeouts.clone();
    spec
}

pub fn gen_zippy(r: &mut Rng, src: &[String]) -> (SX, String) {
    let mut v = vec![a("defzippy"), a("zippy.txt")];
    if r.chance(500) {
        v.push(a("on-first-press-chord-deadline"));
        v.push(num(*r.pick(&[5, 50, 500])));
    }
    if r.chance(500) {
        v.push(a("idle-reactivate-time"));
        v.push(num(*r.pick(&[5, 50, 500])));
    }
    if r.chance(400) {
        v.push(a("smart-space"));
        v.push(a(*r.pick(&["none", "add-space-only", "full"])));
    }
    let letters: Vec<&String> = src.iter().filter(|k| k.len() == 1 && k.chars().all(|c| c.is_ascii_lowercase())).collect();
    let mut file = String::new();
    let mut seen: Vec<Vec<char>> = vec![];
    if letters.len() >= 2 {
        let n = r.range(1, 4);
        for _ in 0..n {
            let mut ks: Vec<&String> = letters.clone();
            r.shuffle(&mut ks);
            ks.truncate(r.range(2, 3.min(ks.len() as u64)) as usize);
            let chord: String = ks.iter().map(|s| s.as_str()).collect::<Vec<_>>().join("");
            let mut sorted: Vec<char> = chord.chars().collect();
            sorted.sort();
            if seen.contains(&sorted) {
                continue;
            }
            seen.push(sorted);
            let out = *r.pick(&["hello", "Hi", "a b", "xyz", "Monday", "ok"]);
            file.push_str(&format!("{chord}\t{out}\n"));
        }
    }
    (l(v), file)
}

pub fn spec_text(spec: &CfgSpec) -> String {
    fix_prefix_groups(&spec.to_text())
}

// ---------------------------------------------------------------------------------------------
// history generator
// ---------------------------------------------------------------------------------------------

#[derive(Clone, Debug)]
pub struct HistOpts {
    /// keys that may be pressed (OS codes)
    pub keys: Vec<u16>,
    pub max_events: usize,
    /// physically consistent (press only up keys, release only down keys, release all at the end)
    pub consistent: bool,
    pub repeats: bool,
    pub tap_events: bool,
    /// permille of Dup / Orphan faults per event (hostile)
    pub dup_orphan_permille: u64,
    /// permille chance that an event is followed by a burst of 0-gap events
    pub burst_permille: u64,
    pub max_burst: usize,
    /// timeouts in the config for boundary gaps
    pub timeouts: Vec<u64>,
    /// permille of long gaps
    pub long_gap_permille: u64,
    pub very_long_gap_permille: u64,
    pub max_gap: u64,
    pub vkeys: Vec<String>,
    pub vkey_permille: u64,
    pub vkey_balanced: bool,
    pub layers: Vec<String>,
    pub change_layer_permille: u64,
    pub clock_jump_permille: u64,
}

impl Default for HistOpts {
    fn default() -> Self {
        HistOpts {
            keys: vec![],
            max_events: 30,
            consistent: true,
            repeats: false,
            tap_events: false,
            dup_orphan_permille: 0,
            burst_permille: 0,
            max_burst: 40,
            timeouts: vec![],
            long_gap_permille: 50,
            very_long_gap_permille: 0,
            max_gap: 70_000,
            vkeys: vec![],
            vkey_permille: 0,
            vkey_balanced: true,
            layers: vec![],
            change_layer_permille: 0,
            clock_jump_permille: 0,
        }
    }
}

pub fn gen_gap(r: &mut Rng, o: &HistOpts) -> u64 {
    if r.chance(o.very_long_gap_permille) {
        return (*r.pick(&[10_000u64, 10_001, 12_000, 65_535, 65_536, 66_000, 70_000])).min(o.max_gap);
    }
    if r.chance(o.long_gap_permille) {
        return r.range(100, 1500).min(o.max_gap);
    }
    let g = match r.pick_w(&[15, 20, 25, 25, 15]) {
        0 => 0,
        1 => 1,
        2 => r.range(2, 10),
        3 => {
            if o.timeouts.is_empty() {
                r.range(2, 60)
            } else {
                let t = *r.pick(&o.timeouts);
                let t2 = if r.chance(200) { t + *r.pick(&o.timeouts) } else { t };
                let d = *r.pick(&[-2i64, -1, 0, 1, 2]);
                (t2 as i64 + d).max(0) as u64
            }
        }
        _ => r.range(10, 80),
    };
    g.min(o.max_gap)
}

pub fn gen_history(r: &mut Rng, o: &HistOpts) -> Vec<Op> {
    let mut ops: Vec<Op> = vec![];
    let mut down: Vec<u16> = vec![];
    let mut vk_down: Vec<String> = vec![];
    let n = r.range(1, o.max_events as u64) as usize;
    let mut i = 0;
    while i < n {
        i += 1;
        // choose an event
        if !o.vkeys.is_empty() && r.chance(o.vkey_permille) {
            let vk = r.pick(&o.vkeys).clone();
            if o.vkey_balanced {
                if vk_down.contains(&vk) {
                    vk_down.retain(|x| *x != vk);
                    ops.push(Op::Vkey(vk, 1));
                } else if r.chance(500) {
                    ops.push(Op::Vkey(vk, 2));
                } else {
                    vk_down.push(vk.clone());
                    ops.push(Op::Vkey(vk, 0));
                }
            } else {
                ops.push(Op::Vkey(vk, r.below(4) as u8));
            }
        } else if !o.layers.is_empty() && r.chance(o.change_layer_permille) {
            ops.push(Op::ChangeLayer(r.pick(&o.layers).clone()));
        } else if o.consistent {
            let can_press: Vec<u16> = o.keys.iter().copied().filter(|k| !down.contains(k)).collect();
            let press = !can_press.is_empty() && (down.is_empty() || r.chance(550));
            if press {
                let k = *r.pick(&can_press);
                if is_wheel_code(k) {
                    ops.push(Op::TapEvt(k));
                } else {
                    down.push(k);
                    ops.push(Op::Press(k));
                }
            } else if !down.is_empty() {
                let idx = r.below(down.len() as u64) as usize;
                let k = down.remove(idx);
                ops.push(Op::Release(k));
            }
            if o.repeats && !down.is_empty() && r.chance(250) {
                let k = *r.pick(&down);
                if !is_mouse_btn_code(k) {
                    ops.push(Op::Gap(gen_gap(r, o) as u32));
                    ops.push(Op::Repeat(k));
                }
            }
            if o.dup_orphan_permille > 0 && r.chance(o.dup_orphan_permille) {
                // Dup: press of a key already down / Orphan: release of a key not down
                if !down.is_empty() && r.chance(500) {
                    ops.push(Op::Press(*r.pick(&down)));
                } else {
                    let up: Vec<u16> = o.keys.iter().copied().filter(|k| !down.contains(k)).collect();
                    if !up.is_empty() {
                        ops.push(Op::Release(*r.pick(&up)));
                    }
                }
            }
        } else {
            let k = *r.pick(&o.keys);
            match r.pick_w(&[45, 40, if o.repeats { 10 } else { 0 }, if o.tap_events { 5 } else { 0 }]) {
                0 => {
                    if !down.contains(&k) {
                        down.push(k);
                    }
                    ops.push(Op::Press(k))
                }
                1 => {
                    down.retain(|x| *x != k);
                    ops.push(Op::Release(k))
                }
                2 => ops.push(Op::Repeat(k)),
                _ => ops.push(Op::TapEvt(k)),
            }
        }
        // burst
        if r.chance(o.burst_permille) {
            let b = r.range(2, o.max_burst as u64) as usize;
            for _ in 0..b {
                if o.consistent {
                    let can_press: Vec<u16> = o.keys.iter().copied().filter(|k| !down.contains(k)).collect();
                    if !can_press.is_empty() && (down.is_empty() || r.chance(500)) {
                        let k = *r.pick(&can_press);
                        if is_wheel_code(k) {
                            ops.push(Op::TapEvt(k));
                        } else {
                            down.push(k);
                            ops.push(Op::Press(k));
                        }
                    } else if !down.is_empty() {
                        let idx = r.below(down.len() as u64) as usize;
                        ops.push(Op::Release(down.remove(idx)));
                    }
                } else {
                    let k = *r.pick(&o.keys);
                    if r.chance(500) {
                        ops.push(Op::Press(k))
                    } else {
                        ops.push(Op::Release(k))
                    }
                }
            }
        }
        // gap
        if r.chance(o.clock_jump_permille) {
            ops.push(Op::ClockJump(r.range(2, 400) as u32));
        } else {
            let g = gen_gap(r, o);
            if g > 0 {
                ops.push(Op::Gap(g as u32));
            }
        }
    }
    // release everything (consistent mode): in random order with small gaps
    if o.consistent {
        r.shuffle(&mut down);
        for k in down {
            ops.push(Op::Release(k));
            let g = gen_gap(r, o).min(300);
            if g > 0 {
                ops.push(Op::Gap(g as u32));
            }
        }
        for vk in vk_down {
            ops.push(Op::Vkey(vk, 1));
            ops.push(Op::Gap(1));
        }
    }
    ops
}
