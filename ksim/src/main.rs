mod exec_a;
mod exec_b;
mod gen;
mod ops;
mod props;
mod runner;
mod sx;
mod trace;

use props::Tier;

fn arg_val(args: &[String], name: &str) -> Option<String> {
    args.iter().position(|a| a == name).and_then(|i| args.get(i + 1)).cloned()
}

fn tier_of(s: &str) -> Tier {
    if s == "thorough" {
        Tier::Thorough
    } else {
        Tier::Quick
    }
}

fn main() {
    let args: Vec<String> = std::env::args().collect();
    let cmd = args.get(1).map(|s| s.as_str()).unwrap_or("");
    let code = match cmd {
        "run" => {
            let prop = args.get(2).cloned().unwrap_or_default();
            let tier = arg_val(&args, "--tier").or_else(|| std::env::var("VERIF_TIER").ok()).unwrap_or_else(|| "quick".into());
            let seed = std::env::var("VERIF_SEED").ok().and_then(|s| parse_u64(&s)).unwrap_or(runner::DEFAULT_SEED);
            let jobs = std::env::var("VERIF_JOBS").ok().and_then(|s| s.parse().ok()).unwrap_or(16u64).max(1);
            runner::run_main(&runner::RunArgs { prop, tier: tier_of(&tier), seed, jobs })
        }
        "worker" => {
            let a = runner::WorkerArgs {
                prop: args.get(2).cloned().unwrap_or_default(),
                seed: arg_val(&args, "--seed").and_then(|s| s.parse().ok()).unwrap_or(0),
                tier: tier_of(&arg_val(&args, "--tier").unwrap_or_default()),
                start: arg_val(&args, "--start").and_then(|s| s.parse().ok()).unwrap_or(0),
                stride: arg_val(&args, "--stride").and_then(|s| s.parse().ok()).unwrap_or(1),
                count: arg_val(&args, "--count").and_then(|s| s.parse().ok()).unwrap_or(1),
                budget_s: arg_val(&args, "--budget").and_then(|s| s.parse().ok()).unwrap_or(60.0),
                hunt: args.iter().any(|a| a == "--hunt"),
                hang_limit_s: arg_val(&args, "--hang-limit").and_then(|s| s.parse().ok()).unwrap_or(30.0),
            };
            runner::worker(&a)
        }
        "check-case" => runner::check_case_main(args.get(2).map(|s| s.as_str()).unwrap_or("")),
        "replay" => runner::replay_main(args.get(2).map(|s| s.as_str()).unwrap_or("")),
        "corpus" => match props::c03::build_corpus() {
            Ok(n) => {
                println!("corpus: {n} files");
                0
            }
            Err(e) => {
                eprintln!("corpus extraction failed: {e}");
                2
            }
        },
        "rules" => {
            // {id: rule_text} for tools/mkmanifest.py
            let m: serde_json::Map<String, serde_json::Value> = props::all().iter().map(|p| (p.id().to_string(), serde_json::Value::String(p.rule_text()))).collect();
            println!("{}", serde_json::Value::Object(m));
            0
        }
        "show" => {
            // run one case (a replay file or a bare case) and print verdict + trace sample
            runner::install_panic_hook();
            let path = args.get(2).cloned().unwrap_or_default();
            let txt = std::fs::read_to_string(&path).expect("read");
            let case: ops::Case = match serde_json::from_str::<ops::ReplayFile>(&txt) {
                Ok(rf) => rf.case,
                Err(_) => serde_json::from_str(&txt).expect("case json"),
            };
            let p = props::by_id(&case.prop).expect("prop");
            let o = runner::checked(p.as_ref(), &case, true);
            println!("cfg:\n{}", case.cfg);
            println!("ops: {}", ops::ops_short(&case.ops));
            println!("verdict: {:?}", o.verdict);
            if let Some(s) = o.sample {
                println!("out: {}", s["out"]);
                println!("info: {}", s["info"]);
            }
            println!("counters: {:?}", o.counters);
            0
        }
        "sim" => {
            // ksim sim '<cfg text>' 'd:a t:10 u:a vk:name:tap' [blocking]
            runner::install_panic_hook();
            let cfg = args.get(2).cloned().unwrap_or_default();
            let script = args.get(3).cloned().unwrap_or_default();
            let mode = if args.get(4).map(|s| s == "blocking").unwrap_or(false) { exec_a::Mode::Blocking } else { exec_a::Mode::Ticking };
            let ops = ops::parse_script(&script);
            // KSIM_FILE="name=path" provides one includable file (zippy dictionary, include)
            let files: Vec<(String, String)> = std::env::var("KSIM_FILE").ok().and_then(|v| v.split_once('=').map(|(n, p)| (n.to_string(), std::fs::read_to_string(p).unwrap_or_default()))).into_iter().collect();
            match exec_a::Stepper::new_filtered(&cfg, &files, mode) {
                Ok(mut st) => {
                    st.run_ops(&ops);
                    println!("{}", trace::outs_short(&st.trace.outs));
                    println!("idle={} can_block={} reload_pending={}", st.k.is_idle(), st.k.can_block_update_idle_waiting(1), st.k.verif_live_reload_requested());
                    if std::env::var_os("KSIM_DUMP").is_some() {
                        println!("dynamic_macros={:?}", st.k.dynamic_macros);
                    }
                    0
                }
                Err(e) => {
                    println!("parse error: {e}");
                    1
                }
            }
        }
        "simb" => {
            // ksim simb '<cfg text>' '<script>' [seed] [cost_us] [stall_permille]: executor B (real loop thread)
            runner::install_panic_hook();
            let cfg = args.get(2).cloned().unwrap_or_default();
            let script = args.get(3).cloned().unwrap_or_default();
            let seed: u64 = args.get(4).and_then(|s| s.parse().ok()).unwrap_or(1);
            let cost: u64 = args.get(5).and_then(|s| s.parse().ok()).unwrap_or(0);
            let stall: u64 = args.get(6).and_then(|s| s.parse().ok()).unwrap_or(0);
            let ops = ops::parse_script(&script);
            let sim = kanata_verif_rt::SimCfg { seed, cost_max_ns: cost * 1000, switch_permille: if cost > 0 { 200 } else { 0 }, stall_permille: stall, stall_min_ns: 2_000_000, stall_max_ns: 40_000_000, sleep_overshoot_max_ns: cost * 1000, tape: None, max_steps: 5_000_000 };
            // seed 0 = strict mode: no jitter, ties resolved in task order (feeder first), phase 0
            let (sim, phase) = if seed == 0 { (kanata_verif_rt::SimCfg { tape: Some(vec![]), max_steps: 5_000_000, ..Default::default() }, 0) } else { (sim, 250) };
            match exec_b::run_b(&cfg, &[], &ops, &exec_b::BOpts { sim, tcp_task: true, phase_us: phase }) {
                Ok(b) => {
                    println!("{}", trace::outs_short(&b.outs));
                    if std::env::var_os("KSIM_DUMP").is_some() {
                        println!("dynamic_macros={}", b.dynamic_macros);
                    }
                    println!("ticks={} end_ms={} steps={} switches={} stalls={} clock_jumps={} tasks={} deadlock={} leaked={} panics={:?} down={:?} sched={:x}", b.ticks, b.end_ms, b.report.steps, b.report.switches, b.report.stalls, b.report.clock_jumps, b.report.tasks, b.report.deadlock, b.report.leaked, b.report.panics, b.down_at_end, b.report.schedule_hash);
                    0
                }
                Err(e) => {
                    println!("error: {e}");
                    1
                }
            }
        }
        "minimise" => {
            // ksim minimise <case-or-replay.json> [budget_s]: minimise a failing case, print it
            let path = args.get(2).cloned().unwrap_or_default();
            let budget: f64 = args.get(3).and_then(|s| s.parse().ok()).unwrap_or(120.0);
            let txt = std::fs::read_to_string(&path).expect("read");
            let case: ops::Case = match serde_json::from_str::<ops::ReplayFile>(&txt) {
                Ok(rf) => rf.case,
                Err(_) => serde_json::from_str(&txt).expect("case json"),
            };
            match runner::check_isolated(&case.prop, &case, 60.0) {
                None => {
                    println!("case passes");
                    0
                }
                Some(v) => {
                    println!("rule: {}", v.rule);
                    let mut m = runner::Minimiser { prop: &case.prop, rule: v.rule.clone(), deadline: std::time::Instant::now() + std::time::Duration::from_secs_f64(budget), attempts: 0, max_attempts: 20000 };
                    let small = m.minimise(&case);
                    println!("attempts: {}", m.attempts);
                    println!("cfg:\n{}", small.cfg);
                    println!("ops: {}", ops::ops_short(&small.ops));
                    let out = format!("{path}.min.json");
                    std::fs::write(&out, serde_json::to_string(&small).unwrap()).unwrap();
                    println!("written {out}");
                    0
                }
            }
        }
        "rejects" => {
            // histogram of parser rejection messages for generated cases (generator tuning aid)
            let prop = args.get(2).cloned().unwrap_or_default();
            let n: u64 = args.get(3).and_then(|s| s.parse().ok()).unwrap_or(1000);
            let p = props::by_id(&prop).expect("prop");
            let mut h: std::collections::BTreeMap<String, (u64, String)> = Default::default();
            let mut ok = 0;
            for i in 0..n {
                let c = p.gen(runner::run_seed(runner::DEFAULT_SEED, i), Tier::Quick);
                let mut m: rustc_hash::FxHashMap<String, String> = Default::default();
                for (k, v) in &c.files {
                    m.insert(k.clone(), v.clone());
                }
                match kanata_parser::cfg::new_from_str(&c.cfg, m) {
                    Ok(_) => ok += 1,
                    Err(e) => {
                        let r = format!("{e:?}");
                        let msg = r.lines().skip_while(|l| !l.contains("help:")).next().unwrap_or("?").trim().chars().take(110).collect::<String>();
                        let ent = h.entry(msg).or_insert((0, c.cfg.clone()));
                        ent.0 += 1;
                    }
                }
            }
            println!("accepted {ok}/{n}");
            let mut v: Vec<_> = h.into_iter().collect();
            v.sort_by_key(|x| std::cmp::Reverse(x.1 .0));
            for (m, (c, ex)) in v.iter().take(40) {
                println!("{c:6} {m}");
                if args.iter().any(|a| a == "-v") {
                    println!("{ex}");
                }
            }
            0
        }
        "gen" => {
            // print the case for a property and run index (debugging aid)
            let prop = args.get(2).cloned().unwrap_or_default();
            let seed = std::env::var("VERIF_SEED").ok().and_then(|s| parse_u64(&s)).unwrap_or(runner::DEFAULT_SEED);
            let idx: u64 = args.get(3).and_then(|s| s.parse().ok()).unwrap_or(0);
            match props::by_id(&prop) {
                Some(p) => {
                    // "s<run seed>" regenerates the case of a recorded run seed
                    let rs = args.get(3).and_then(|a| a.strip_prefix('s')).and_then(|a| a.parse::<u64>().ok()).unwrap_or_else(|| runner::run_seed(seed, idx));
                    let c = p.gen(rs, Tier::Quick);
                    println!("{}", serde_json::to_string_pretty(&c).unwrap());
                    0
                }
                None => 2,
            }
        }
        _ => {
            eprintln!("usage: ksim run <id> [--tier quick|thorough] | replay <file> | corpus | gen <id> <idx>");
            2
        }
    };
    std::process::exit(code);
}

fn parse_u64(s: &str) -> Option<u64> {
    if let Some(h) = s.strip_prefix("0x") {
        u64::from_str_radix(h, 16).ok()
    } else {
        s.parse().ok()
    }
}
