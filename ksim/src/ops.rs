//! The operation language (workload + faults in one list) and the case / replay file format.

use serde::{Deserialize, Serialize};

#[derive(Clone, Debug, PartialEq, Serialize, Deserialize)]
pub enum Op {
    /// physical/OS events; `u16` is the OS key code
    Press(u16),
    Release(u16),
    Repeat(u16),
    /// KeyValue::Tap (what mouse wheel events produce)
    TapEvt(u16),
    /// n ms of simulated time with no input (executor A: n iterations of the loop protocol)
    Gap(u32),
    /// FAULT: one wake-up of the loop sees n ms elapsed at once (one can-block call, tick_ms(n))
    ClockJump(u32),
    /// what a TCP client's ActOnFakeKey does: 0 press 1 release 2 tap 3 toggle
    Vkey(String, u8),
    /// TCP ChangeLayer
    ChangeLayer(String),
    /// rewrite config file idx with content (executor B / C15)
    FileWrite(usize, String),
    /// remove config file idx (C15)
    FileRemove(usize),
    /// replace config file idx by a directory (unreadable)
    FileDir(usize),
    /// write raw bytes (non UTF-8 etc) to config file idx
    FileBytes(usize, Vec<u8>),
}

impl Op {
    pub fn is_input(&self) -> bool {
        matches!(self, Op::Press(_) | Op::Release(_) | Op::Repeat(_) | Op::TapEvt(_) | Op::Vkey(..) | Op::ChangeLayer(_))
    }
    pub fn short(&self) -> String {
        match self {
            Op::Press(c) => format!("d:{}", code_name(*c)),
            Op::Release(c) => format!("u:{}", code_name(*c)),
            Op::Repeat(c) => format!("r:{}", code_name(*c)),
            Op::TapEvt(c) => format!("tap:{}", code_name(*c)),
            Op::Gap(n) => format!("t:{n}"),
            Op::ClockJump(n) => format!("jump:{n}"),
            Op::Vkey(n, a) => format!("vk:{}:{}", n, ["press", "release", "tap", "toggle"][*a as usize & 3]),
            Op::ChangeLayer(n) => format!("layer:{n}"),
            Op::FileWrite(i, c) => format!("fwrite:{}:{}B", i, c.len()),
            Op::FileRemove(i) => format!("frm:{i}"),
            Op::FileDir(i) => format!("fdir:{i}"),
            Op::FileBytes(i, b) => format!("fbytes:{}:{}B", i, b.len()),
        }
    }
}

pub fn code_name(c: u16) -> String {
    match kanata_parser::keys::OsCode::from_u16(c) {
        Some(osc) => {
            let kc = kanata_keyberon::key_code::KeyCode::from(osc);
            format!("{kc:?}")
        }
        None => format!("#{c}"),
    }
}

pub fn ops_short(ops: &[Op]) -> String {
    ops.iter().map(|o| o.short()).collect::<Vec<_>>().join(" ")
}

/// One case = everything a run depends on. A replay file is exactly this (plus the expected
/// violation); replay does not regenerate from the seed.
#[derive(Clone, Debug, Default, Serialize, Deserialize)]
pub struct Case {
    pub prop: String,
    /// run seed this case was generated from (informational; replay does not use it to regenerate)
    pub seed: u64,
    pub cfg: String,
    /// includable files (name -> content) for new_from_str; for executor B: config file contents
    #[serde(default)]
    pub files: Vec<(String, String)>,
    pub ops: Vec<Op>,
    /// free-form parameters the property's checker understands (mode flags, model hints...)
    #[serde(default)]
    pub params: std::collections::BTreeMap<String, String>,
    /// executor B schedule tape (None for executor A cases)
    #[serde(default)]
    pub tape: Option<Vec<u64>>,
}

impl Case {
    pub fn param(&self, k: &str) -> Option<&str> {
        self.params.get(k).map(|s| s.as_str())
    }
    pub fn param_u64(&self, k: &str) -> Option<u64> {
        self.param(k).and_then(|s| s.parse().ok())
    }
    pub fn param_flag(&self, k: &str) -> bool {
        self.param(k).map(|s| s == "1" || s == "true").unwrap_or(false)
    }
    pub fn set(&mut self, k: &str, v: impl ToString) {
        self.params.insert(k.to_string(), v.to_string());
    }
}

#[derive(Clone, Debug, Serialize, Deserialize, PartialEq)]
pub struct Violation {
    /// stable class id: oracle rule, or "panic@file:line: message"
    pub rule: String,
    pub detail: String,
    /// discriminating features of the failing history (used to match known findings)
    #[serde(default)]
    pub tags: Vec<String>,
}

#[derive(Clone, Debug, Serialize, Deserialize)]
pub struct ReplayFile {
    pub property: String,
    pub violation: Violation,
    pub case: Case,
    pub repo_head: String,
    pub repo_dirty_hash: String,
    pub minimised: bool,
    pub note: String,
}

/// Parse the short script form: d:a u:a r:a tap:mwu t:10 jump:20 vk:name:tap layer:name
pub fn parse_script(s: &str) -> Vec<Op> {
    let code = |n: &str| -> u16 {
        if let Some(num) = n.strip_prefix('#') {
            return num.parse().unwrap_or(0);
        }
        kanata_parser::keys::str_to_oscode(n).map(|o| o.as_u16()).unwrap_or_else(|| panic!("unknown key {n}"))
    };
    let mut ops = vec![];
    for tok in s.split_whitespace() {
        let parts: Vec<&str> = tok.split(':').collect();
        match parts[0] {
            "d" => ops.push(Op::Press(code(parts[1]))),
            "u" => ops.push(Op::Release(code(parts[1]))),
            "r" => ops.push(Op::Repeat(code(parts[1]))),
            "tap" => ops.push(Op::TapEvt(code(parts[1]))),
            "t" => ops.push(Op::Gap(parts[1].parse().unwrap())),
            "jump" => ops.push(Op::ClockJump(parts[1].parse().unwrap())),
            "vk" => ops.push(Op::Vkey(parts[1].to_string(), match parts[2] { "press" => 0, "release" => 1, "tap" => 2, _ => 3 })),
            "layer" => ops.push(Op::ChangeLayer(parts[1].to_string())),
            _ => panic!("bad token {tok}"),
        }
    }
    ops
}
