//! C01 — no stuck output: once all keys are up, kanata releases everything and goes idle.

use super::common::*;
use super::*;
use crate::exec_a::*;
use crate::gen::*;
use crate::ops::*;
use crate::trace::*;
use serde_json::json;

pub struct C01;

/// Macro-cancel sweep: a cancellable macro whose steps include actions with a release handler (mouse
/// buttons, wheel, mouse movement, unmod), cancelled at every offset into the macro (including the
/// one tick between such a step's press and release), by another key press or by the release of
/// the macro key; afterwards nothing may be left down or running.
fn gen_macro_cancel(r: &mut Rng, seed: u64) -> Case {
    let mut case = Case { prop: "C01".into(), seed, ..Default::default() };
    let variants = ["macro-cancel-on-press", "macro-release-cancel", "macro-release-cancel-and-cancel-on-press", "macro-repeat-release-cancel", "macro-repeat-cancel-on-press"];
    let steps = ["x", "mlft", "mrgt", "(mwheel-up 50 120)", "(mwheel-right 30 120)", "(movemouse-down 5 1)", "(unmod z)", "(unshift y)", "S-k", "(unicode é)", "5", "10", "3"];
    let v = *r.pick(&variants);
    let n = r.range(2, 6);
    let mut body: Vec<String> = vec![];
    for _ in 0..n {
        body.push(r.pick(&steps).to_string());
        if r.chance(500) {
            body.push(r.range(1, 12).to_string());
        }
    }
    case.cfg = format!("(defcfg process-unmapped-keys no)\n(defsrc a b)\n(deflayer l0 ({v} {}) b)\n", body.join(" "));
    let (ka, kb) = (oscode_of("a"), oscode_of("b"));
    let g = r.range(1, 45) as u32;
    let mut ops = vec![Op::Gap(2), Op::Press(ka)];
    if r.chance(500) {
        // cancelled by another key
        ops.push(Op::Gap(g));
        ops.push(Op::Press(kb));
        ops.push(Op::Gap(r.range(1, 10) as u32));
        ops.push(Op::Release(kb));
        ops.push(Op::Gap(r.range(0, 3) as u32));
        ops.push(Op::Release(ka));
    } else {
        // cancelled by releasing the macro key
        ops.push(Op::Gap(g));
        ops.push(Op::Release(ka));
        if r.chance(400) {
            ops.push(Op::Gap(r.range(0, 5) as u32));
            ops.push(Op::Press(kb));
            ops.push(Op::Gap(2));
            ops.push(Op::Release(kb));
        }
    }
    case.ops = ops;
    case.set("pop", "macro-cancel-sweep");
    case
}

/// Capacity populations: the statement quantifies over "more than 64 simultaneously active
/// states, more than 8 concurrent tap-holds and more than 16 concurrent one-shots"; the general
/// generator reaches these limits too rarely (and never with a custom action pressed at the
/// limit), so they get generated on purpose.
fn gen_capacity(r: &mut Rng, seed: u64) -> Case {
    let mut case = Case { prop: "C01".into(), seed, ..Default::default() };
    let kind = *r.pick(&["states", "states", "tapholds", "oneshots"]);
    let fill: Vec<&str> = if kind == "oneshots" { vec!["q", "w", "e", "r", "t", "y", "u", "i", "o", "p", "6", "7", "8", "9", "0", "f5", "f6", "f7", "f8", "f9"] } else { vec!["q", "w", "e", "r", "t", "y", "u", "i", "o", "p", "6", "7"] };
    let outk = ["a", "b", "c", "d", "f", "g", "h", "j", "k", "l", "z", "x", "v", "n", "m", "1", "2", "3", "4", "5"];
    let others: Vec<&str> = vec!["f1", "f2", "f3", "f4"];
    // actions whose release handler must run
    let custom_pool = [
        "mlft",
        "mrgt",
        "(mwheel-up 50 120)",
        "(mwheel-left 30 120)",
        "(movemouse-up 5 1)",
        "(movemouse-accel-left 5 200 1 5)",
        "(unmod z)",
        "(unshift x)",
        "(layer-while-held l1)",
        "lsft",
        "(one-shot 30 lctl)",
        "(tap-hold 20 20 a lalt)",
        "(multi lctl (mwheel-down 40 120))",
        "(multi (on-press press-vkey vk0) (on-release release-vkey vk0))",
        "(macro a b)",
        "C-S-c",
        "(caps-word 100)",
    ];
    let mut src: Vec<String> = fill.iter().map(|s| s.to_string()).collect();
    src.extend(others.iter().map(|s| s.to_string()));
    let mut acts: Vec<String> = vec![];
    match kind {
        "states" => {
            for i in 0..fill.len() {
                let n = r.range(6, 10) as usize;
                let ks: Vec<&str> = (0..n).map(|j| outk[(i * 3 + j) % outk.len()]).collect();
                acts.push(format!("(multi {})", ks.join(" ")));
            }
        }
        "tapholds" => {
            for i in 0..fill.len() {
                let v = *r.pick(&["tap-hold", "tap-hold-press", "tap-hold-release"]);
                acts.push(format!("({v} {} {} {} {})", r.range(5, 40), r.range(30, 90), outk[i], *r.pick(&["lsft", "lctl", "(layer-while-held l1)", "lalt"])));
            }
        }
        _ => {
            for i in 0..fill.len() {
                let v = *r.pick(&["one-shot", "one-shot-release", "one-shot-press-pcancel", "one-shot-release-pcancel"]);
                acts.push(format!("({v} {} {})", r.range(60, 300), *r.pick(&["lsft", "lctl", "lalt", "lmet", "rsft", "rctl", "ralt", "rmet", outk[i % outk.len()]])));
            }
        }
    }
    for _ in 0..others.len() {
        acts.push(r.pick(&custom_pool).to_string());
    }
    let l1: Vec<String> = src.iter().map(|_| if r.chance(300) { "_".to_string() } else { r.pick(&outk).to_string() }).collect();
    case.cfg = format!(
        "(defcfg concurrent-tap-hold {} process-unmapped-keys no)\n(defsrc {})\n(defvirtualkeys vk0 rctl)\n(deflayer l0 {})\n(deflayer l1 {})\n",
        if r.chance(700) { "yes" } else { "no" },
        src.join(" "),
        acts.join(" "),
        l1.join(" ")
    );
    let code = |k: &str| oscode_of(k);
    let mut ops: Vec<Op> = vec![];
    let mut down: Vec<&str> = vec![];
    // phase 1: go to the limit
    let mut order = fill.clone();
    r.shuffle(&mut order);
    let nfill = match kind {
        "states" => r.range(6, 11),
        "tapholds" => r.range(8, 12),
        _ => r.range(14, 20),
    } as usize;
    for k in order.iter().take(nfill) {
        ops.push(Op::Press(code(k)));
        down.push(k);
        ops.push(Op::Gap(r.range(0, 2) as u32));
        if kind == "oneshots" {
            ops.push(Op::Release(code(k)));
            down.retain(|x| x != k);
            ops.push(Op::Gap(r.range(0, 2) as u32));
        }
    }
    // phase 2: other keys at the limit
    let n2 = r.range(2, 12);
    for _ in 0..n2 {
        let k = *r.pick(&others);
        if down.contains(&k) {
            ops.push(Op::Release(code(k)));
            down.retain(|x| *x != k);
        } else {
            ops.push(Op::Press(code(k)));
            down.push(k);
        }
        ops.push(Op::Gap(*r.pick(&[0u32, 1, 2, 5, 25])));
        if r.chance(200) && !down.is_empty() {
            // a filler key comes up / goes down in between
            let k = *r.pick(&order[..nfill]);
            if down.contains(&k) {
                ops.push(Op::Release(code(k)));
                down.retain(|x| *x != k);
            } else {
                ops.push(Op::Press(code(k)));
                down.push(k);
            }
            ops.push(Op::Gap(r.range(0, 3) as u32));
        }
    }
    // phase 3: release everything in random order
    r.shuffle(&mut down);
    for k in down {
        ops.push(Op::Release(code(k)));
        ops.push(Op::Gap(r.range(0, 4) as u32));
    }
    case.ops = ops;
    case.set("pop", format!("capacity-{kind}"));
    case
}

const TAIL_E: u64 = 300;

impl Prop for C01 {
    fn id(&self) -> &'static str {
        "C01"
    }
    fn rule_text(&self) -> String {
        "case = (config from the whole action grammar restricted to non-latching use: virtual keys only in balanced templates; physically consistent history with repeats, bursts > 32 events/ms, clock jumps, capacity pressure; every key eventually released, then silence for Q(cfg)+E ms). Oracle evaluated after the last release only. 3 of 8 cases run with a late loop (2 / 5 / 50 ms per iteration, tick_ms(n)). non-trivial = at least one OS key/button went down during the run; distinct = distinct output trace signature.".into()
    }
    fn runs(&self, tier: Tier) -> u64 {
        match tier {
            Tier::Quick => 9_000,
            Tier::Thorough => 1_000_000,
        }
    }
    fn gen(&self, seed: u64, tier: Tier) -> Case {
        let mut r = Rng::new(seed);
        if r.chance(120) {
            return gen_capacity(&mut r, seed);
        }
        if r.chance(80) {
            return gen_macro_cancel(&mut r, seed);
        }
        if r.chance(60) {
            // dynamic macros: recordings that stop by themselves at the size limit (also with
            // keys held at that moment), nested and self-referencing replays; afterwards every
            // key is up and nothing may stay pressed
            let pop = *r.pick(&["limit", "limit", "identity", "selfplay"]);
            let mut c = super::c19::gen_c19(seed, Some(pop));
            c.prop = "C01".into();
            c.set("pop", "dynamic-macro");
            return c;
        }
        let pressure = r.chance(150);
        let o = GenOpts {
            feats: feat::ALL_RUNTIME & !feat::DELAY,
            max_keys: if pressure { 14 } else { 8 },
            max_layers: 4,
            max_depth: 3,
            hostile: false,
        };
        let spec = gen_general(&mut r, &o);
        let mut case = Case { prop: "C01".into(), seed, cfg: spec_text(&spec), files: spec.files.clone(), ..Default::default() };
        let keys: Vec<u16> = spec.src.iter().map(|k| oscode_of(k)).filter(|c| *c != 0).collect();
        let big = matches!(tier, Tier::Thorough) && r.chance(300);
        let ho = HistOpts {
            keys,
            max_events: if big { 120 } else { 40 },
            consistent: true,
            repeats: r.chance(300),
            tap_events: false,
            dup_orphan_permille: 0,
            burst_permille: if pressure { 300 } else { *r.pick(&[0, 0, 50]) },
            max_burst: 40,
            timeouts: spec.timeouts.clone(),
            long_gap_permille: 30,
            very_long_gap_permille: if r.chance(100) { 20 } else { 0 },
            max_gap: 70_000,
            vkeys: spec.vkeys.iter().map(|v| v.0.clone()).collect(),
            vkey_permille: if r.chance(300) { 50 } else { 0 },
            vkey_balanced: true,
            layers: spec.layer_names(),
            change_layer_permille: 0,
            clock_jump_permille: *r.pick(&[0, 0, 0, 50]),
        };
        case.ops = gen_history(&mut r, &ho);
        case
    }
    fn check(&self, case: &Case, want_sample: bool) -> RunOut {
        let mut st = match Stepper::new_filtered(&case.cfg, &case.files, Mode::Ticking) {
            Ok(s) => s,
            Err(_) => return RunOut::skip("parser-rejected"),
        };
        // schedule dimension "late loop": in 3 of 8 cases an iteration of the processing loop covers
        // 2, 5 or 50 ms at once (tick_ms(n)); derived from the case seed so that a replay repeats it
        st.batch = case.param_u64("batch").unwrap_or([1u64, 1, 1, 1, 1, 2, 5, 50][(case.seed % 8) as usize]);
        // precondition of the property: the configuration does not deliberately latch output
        if !config_is_non_latching(&case.cfg) {
            return RunOut::skip("config-latches-a-virtual-key");
        }
        // precondition of the property: every pressed key is eventually released, virtual keys
        // operated over TCP are balanced
        {
            let mut down: Vec<u16> = vec![];
            let mut vdown: Vec<&str> = vec![];
            for op in &case.ops {
                match op {
                    Op::Press(c) => {
                        if down.contains(c) || is_wheel_code(*c) {
                            return RunOut::skip("history-not-consistent");
                        }
                        down.push(*c)
                    }
                    Op::Release(c) => {
                        if !down.contains(c) {
                            return RunOut::skip("history-not-consistent");
                        }
                        down.retain(|x| x != c)
                    }
                    Op::Repeat(c) => {
                        if !down.contains(c) || is_mouse_btn_code(*c) {
                            return RunOut::skip("history-not-consistent");
                        }
                    }
                    Op::Vkey(n, 0) => vdown.push(n),
                    Op::Vkey(n, 1) => vdown.retain(|x| x != n),
                    Op::Vkey(_, 3) => return RunOut::skip("history-not-consistent"),
                    _ => {}
                }
            }
            if !down.is_empty() || !vdown.is_empty() {
                return RunOut::skip("history-not-consistent");
            }
        }
        st.track_custom = true;
        st.run_ops(&case.ops);
        if st.flood {
            return RunOut::skip(if st.too_slow { "run-longer-than-6s-wall-clock" } else { "replay-fast-forward-output-flood" });
        }
        let mut o = RunOut::pass();
        if st.batch > 1 {
            o.count(&format!("schedule.late-loop-{}ms-per-iteration", st.batch), 1);
        }
        if let Some(p) = case.param("pop") {
            o.count(&format!("pop.{p}"), 1);
        }
        fault_counts(&mut o, &case.ops);
        let any_down = {
            let mut d = DownSet::default();
            let mut any = false;
            for e in &st.trace.outs {
                d.apply(e);
                any |= !d.is_empty();
            }
            any
        };
        // quiescence: no input for Q ms
        let q = quiescence_bound(&case.cfg, &case.ops).min(400_000);
        let t_end_inputs = st.now;
        // sample the engine at 4 points of the quiescence window: a self re-triggering action
        // (an action that re-queues itself through the action queue every few ticks) shows as a
        // constant non-empty input queue with the action queue / waiting state busy throughout
        let mut samples: Vec<(usize, bool)> = vec![];
        for _ in 0..4 {
            st.gap(q / 4);
            let l = st.k.layout.b();
            let mut busy = false;
            // look at a few consecutive ticks because the cycle alternates
            let qlen = l.queue.len();
            busy |= !l.action_queue.is_empty() || l.waiting.is_some();
            for _ in 0..4 {
                st.gap(1);
                let l = st.k.layout.b();
                busy |= !l.action_queue.is_empty() || l.waiting.is_some();
            }
            samples.push((qlen, busy));
        }
        let self_retrigger = samples.iter().all(|(ql, b)| *ql > 0 && *b) && samples.iter().all(|(ql, _)| *ql == samples[0].0);
        let t_q = st.now;
        let d = st.down_set();
        let idle = st.k.is_idle();
        let breakdown = idle_breakdown(&st.k);
        let can_block = st.k.can_block_update_idle_waiting(1);
        st.gap(TAIL_E);
        st.finish();
        o.sim_ms = st.trace.sim_ms;
        o.sig = trace_sig(&st.trace.outs);
        o.nontrivial = any_down;
        probes_into(&mut o, &st.probes, &st.trace);
        let late: Vec<&OutEv> = st.trace.outs.iter().filter(|e| e.t > t_q).collect();
        let cont = continuous_outputs_in(&st.trace.outs, t_q.saturating_sub(TAIL_E.min(q)), t_q + TAIL_E + 1);
        let mut tags: Vec<String> = vec![];
        for (needle, tag) in [("(defchords ", "cfg:defchords"), ("(defchordsv2", "cfg:defchordsv2"), ("defzippy", "cfg:defzippy"), ("defseq", "cfg:defseq"), ("rpt-any", "cfg:rpt-any")] {
            if case.cfg.contains(needle) {
                tags.push(tag.to_string());
            }
        }
        for part in breakdown.split(',') {
            if !part.starts_with("states=") && !part.is_empty() {
                tags.push(format!("busy:{}", part.split(|c| c == '=' || c == '(').next().unwrap_or(part)));
            }
        }
        // (hook H7 counts the overflows themselves; sampling the queue length between calls misses
        // those that happen inside a multi-millisecond tick_ms, e.g. after a clock jump)
        if st.queue_overflows() > 0 || st.probes.max_queue >= 30 || st.probes.queue_full_on_event > 0 || o.counters.get("fault.burst_gt32_events_in_one_ms").copied().unwrap_or(0) > 0 {
            tags.push("queue-overflow".into());
        }
        if st.probes.max_states >= 64 {
            tags.push("states-full".into());
        }
        if st.probes.custom_events_collided > 0 {
            tags.push("custom-events-collided".into());
        }
        if st.probes.max_active_sequences >= 4 {
            tags.push("more-than-4-concurrent-macros".into());
        }
        if self_retrigger {
            tags.push("self-retriggering-action".into());
        }
        if st.probes.dyn_replay_starts >= st.probes.dyn_replay_starts_at_last_input + 3 {
            // the same recording was replayed three or more times after the last input event
            tags.push("dynamic-macro-retriggers-itself".into());
        }
        if !d.is_empty() && d.keys.iter().all(|k| k.starts_with("code")) {
            tags.push("stuck:custom-outputs-only".into());
        }
        // Is everything that is stuck the output of a custom action whose release handler did
        // not run? (mouse buttons, arbitrary codes, scroll / mouse-move state, unmod / unshift
        // keys that no layout state holds, keys held only by a virtual key that an on-release
        // handler should have released)
        {
            use kanata_keyberon::layout::State;
            let l = st.k.layout.b();
            let key_is_custom_held = |name: &String| -> bool {
                if name.starts_with("code") {
                    return true;
                }
                let holders: Vec<&State<_>> = l.states.iter().filter(|s_| s_.keycode().map(|kc| format!("{kc:?}") == *name).unwrap_or(false)).collect();
                holders.is_empty() || holders.iter().all(|s_| s_.coord().map(|c| c.0 == 1).unwrap_or(false))
            };
            let keys_custom = d.keys.iter().all(key_is_custom_held);
            let busy_only_custom = breakdown.split(',').all(|p| p.is_empty() || p.starts_with("states=") || p.starts_with("scroll_state") || p.starts_with("move_mouse_state"));
            let something_stuck = !d.is_empty() || breakdown.contains("scroll_state") || breakdown.contains("move_mouse_state");
            if something_stuck && keys_custom && busy_only_custom {
                tags.push("stuck:custom-action-output".into());
            }
        }
        if !d.is_empty() {
            o.set_fail(
                "C01:stuck-output",
                format!("{} ms after the last input (Q={q}) the OS still has keys {:?} buttons {:?} down [{breakdown}]", t_q - t_end_inputs, d.keys, d.buttons),
                tags.clone(),
            );
        } else if cont > 0 {
            o.set_fail("C01:continuous-output-not-stopped", format!("{cont} scroll/move outputs in the window around Q={q} ms after the last input"), tags.clone());
        } else if !late.is_empty() {
            o.set_fail("C01:output-after-quiescence", format!("output after Q={q} ms of silence: {}", outs_short(&late.iter().map(|e| (*e).clone()).collect::<Vec<_>>())), tags.clone());
        } else if !idle {
            o.set_fail("C01:not-idle", format!("is_idle() is false {q} ms after the last input: {breakdown}"), tags.clone());
        } else if !can_block {
            o.set_fail("C01:cannot-block", format!("can_block_update_idle_waiting is false {q} ms after the last input although is_idle() is true"), tags.clone());
        }
        if let Some(e) = &st.tick_err {
            o.set_fail("C02:tick-returned-error", e.clone(), vec![]);
        }
        if want_sample {
            o.sample = Some(sample_json(case, &st.trace.outs, json!({"Q_ms": q, "idle": idle, "can_block": can_block})));
        }
        o
    }
    fn assumptions(&self) -> Vec<String> {
        vec![
            "Q(cfg,history) = 4*(sum of all numeric atoms <= 65535 in the config + number of atoms) + 1000 ms (+ 2x the typed gaps when dynamic macros are present): an over-approximation of 'bounded by the configured timeouts and macro lengths'".into(),
            "a release of a key that is not down at the OS is ignored when integrating the output trace (documented BUG(sequences) behaviour)".into(),
            "non-latching use only: virtual keys appear only in balanced templates; on-press-delay/on-release-delay excluded (they only sleep)".into(),
        ]
    }
}
