//! C02 — an accepted configuration never crashes or hangs event processing.

use super::common::*;
use super::*;
use crate::exec_a::*;
use crate::gen::*;
use crate::ops::*;
use crate::trace::*;
use serde_json::json;

pub struct C02;

/// 'buffers' population: configurations and histories aimed at the fixed-capacity buffers of the
/// state machine - chords with more participants than the small queues hold, one-shots whose
/// payload has several modifiers tapped again and again (the one-shot key buffer), many macros at
/// once, many held layers, many undecided tap-holds, switch conditions nested to the evaluator's stack depth, list actions with empty lists and zero / boundary numbers - each followed by ordinary typing at the limit.
fn gen_buffers(r: &mut Rng, seed: u64) -> Case {
    const KEYS: &[&str] = &["a", "b", "c", "d", "e", "f", "g", "h", "i", "j", "k", "l", "m", "n", "o", "p", "q", "r", "s", "t", "u", "v", "w", "x", "y", "z", "1", "2", "3", "4", "5", "6", "7", "8", "9", "0"];
    let mut case = Case { prop: "C02".into(), seed, ..Default::default() };
    let kind = *r.pick(&["wide-chord-v2", "wide-chord-v2", "wide-chord-v1", "oneshot-mods", "macros", "layers", "tapholds", "switch-depth", "degenerate", "degenerate", "accumulators", "many-active-chords", "huge-zippy-output", "layer-holds-itself"]);
    case.set("population", "mapped");
    case.set("buffers", kind);
    case.set("mode", if r.chance(500) { "blocking" } else { "ticking" });
    let code = |k: &str| oscode_of(k);
    let mut ops: Vec<Op> = vec![];
    match kind {
        "wide-chord-v2" | "wide-chord-v1" => {
            let n = if kind == "wide-chord-v2" { r.range(12, 36) } else { r.range(6, 24) } as usize;
            let keys = &KEYS[..n];
            let mut chords: Vec<Vec<&str>> = vec![keys.to_vec()];
            if r.chance(250) {
                // a participant list that names keys more than once (up to 40 entries)
                let extra = r.range(1, 40usize.saturating_sub(n).max(1) as u64) as usize;
                for _ in 0..extra {
                    let k = *r.pick(keys);
                    chords[0].push(k);
                }
            }
            for _ in 0..r.range(0, 3) {
                let mut ks = keys.to_vec();
                r.shuffle(&mut ks);
                ks.truncate(r.range(2, n as u64) as usize);
                chords.push(ks);
            }
            if kind == "wide-chord-v2" {
                let ents: Vec<String> = chords.iter().enumerate().map(|(i, ks)| format!("({}) {} {} {} ()", ks.join(" "), ["x", "y", "z", "w"][i % 4], *r.pick(&[50u64, 200, 1000]), *r.pick(&["first-release", "all-released"]))).collect();
                case.cfg = format!("(defcfg concurrent-tap-hold yes)\n(defsrc {})\n(deflayer l0 {})\n(defchordsv2 {})\n", keys.join(" "), keys.join(" "), ents.join(" "));
            } else {
                let acts: Vec<String> = keys.iter().map(|k| format!("(chord g {k})")).collect();
                let mut ents: Vec<String> = keys.iter().filter(|_| r.chance(700)).map(|k| format!("({k}) {k}")).collect();
                for (i, ks) in chords.iter().enumerate() {
                    ents.push(format!("({}) {}", ks.join(" "), ["x", "y", "z", "w"][i % 4]));
                }
                case.cfg = format!("(defsrc {})\n(deflayer l0 {})\n(defchords g {} {})\n", keys.join(" "), acts.join(" "), *r.pick(&[20u64, 100, 500]), ents.join(" "));
            }
            for _round in 0..r.range(1, 3) {
                let mut order = keys.to_vec();
                r.shuffle(&mut order);
                let m = r.range((n as u64).saturating_sub(3).max(1), n as u64) as usize;
                for k in order.iter().take(m) {
                    ops.push(Op::Press(code(k)));
                    if r.chance(300) {
                        ops.push(Op::Gap(r.range(1, 3) as u32));
                    }
                }
                ops.push(Op::Gap(*r.pick(&[1u32, 30, 300, 1200])));
                r.shuffle(&mut order);
                for k in order.iter() {
                    ops.push(Op::Release(code(k)));
                    if r.chance(300) {
                        ops.push(Op::Gap(r.range(1, 3) as u32));
                    }
                }
                ops.push(Op::Gap(*r.pick(&[1u32, 50, 1500])));
            }
        }
        "degenerate" => {
            // list actions with empty lists and zero / boundary numbers: whatever the parser lets
            // through is pressed, held, repeated and released
            let pool = [
                "(tap-dance 200 ())", "(tap-dance-eager 200 ())", "(tap-dance 0 (a))", "(tap-dance-eager 0 (a b))", "(multi)", "(macro)", "(macro 0)", "(macro-repeat)",
                "(macro-release-cancel)", "(fork a b ())", "(fork XX XX (a))", "(switch)", "(switch () XX break)", "(switch ((key-timing 1 lt 0)) a break)", "(one-shot 0 lsft)",
                "(one-shot-press 65535 lsft)", "(tap-hold 0 0 a b)", "(tap-hold 65535 65535 a b)", "(tap-hold-release-keys 10 10 a b ())", "(tap-hold-except-keys 10 10 a b ())",
                "(unmod)", "(unshift)", "(unmod () a)", "(layer-while-held l0)", "(layer-switch l0)", "(caps-word 0)", "(caps-word-custom 0 () ())", "(on-idle 0 tap-vkey v0)",
                "(hold-for-duration 0 v0)", "(on-press tap-vkey v0)", "(sequence 0)", "(sequence 0 hidden-suppressed)", "(dynamic-macro-record-stop-truncate 0)",
                "(dynamic-macro-record-stop-truncate 65535)", "(dynamic-macro-record 65535)", "(dynamic-macro-play 65535)", "(unicode \"\")", "(mwheel-up 0 0)", "(mwheel-up 1 1)",
                "(movemouse-up 0 0)", "(movemouse-accel-up 0 0 0 0)", "(movemouse-accel-up 1 1 1 1)", "(setmouse 0 0)", "(movemouse-speed 0)", "(push-msg)", "(arbitrary-code 0)",
                "(arbitrary-code 767)", "rpt-any", "rpt", "(release-key a)", "(release-layer l0)", "(macro 65535)", "(mwheel-accel-up 0 0 0 0)", "(mwheel-accel-up 1 1 1.0 1.0)",
                "(multi (tap-dance 5 ()) a)", "(tap-dance 5 ((tap-dance 5 ())))", "(one-shot 10 (tap-dance 5 ()))", "(macro (unicode \"\"))",
                "(hold-for-duration 65535 v0)", "(on-idle 65535 press-vkey v0)", "(switch ((input virtual v0)) a break)", "(switch ((layer l0)) a fallthrough () b break)",
            ];
            let keys = ["a", "b", "c", "d"];
            // (one or two such actions per configuration: one rejected action rejects the file)
            let mut acts: Vec<&str> = vec!["a", "b", "c", "d"];
            acts[0] = *r.pick(&pool);
            if r.chance(300) {
                acts[1] = *r.pick(&pool);
            }
            case.cfg = format!(
                "(defcfg concurrent-tap-hold {})\n(defsrc a b c d)\n(defvirtualkeys v0 {})\n(deflayer l0 {})\n(defseq v0 (a b))\n",
                if r.chance(500) { "yes" } else { "no" },
                *r.pick(&["x", "x", "XX", "(tap-dance 5 ())"]),
                acts.join(" ")
            );
            let mut down: Vec<&str> = vec![];
            for _ in 0..r.range(2, 14) {
                let k = *r.pick(&keys);
                if down.contains(&k) {
                    if r.chance(400) {
                        ops.push(Op::Repeat(code(k)));
                    } else {
                        ops.push(Op::Release(code(k)));
                        down.retain(|x| *x != k);
                    }
                } else {
                    ops.push(Op::Press(code(k)));
                    down.push(k);
                }
                ops.push(Op::Gap(*r.pick(&[0u32, 1, 3, 10, 60, 250])));
            }
            for k in down {
                ops.push(Op::Release(code(k)));
                ops.push(Op::Gap(1));
            }
            ops.push(Op::Gap(700));
        }
        "many-active-chords" => {
            // more chords active at the same time than chords v2 keeps track of (10): 9-14 disjoint
            // two-key chords formed one after the other and all held, or one chord formed again and
            // again without its keys ever being released
            let n = r.range(9, 14) as usize;
            let keys = &KEYS[..2 * n];
            let ents: Vec<String> = (0..n).map(|i| format!("({} {}) {} 100 {} ()", keys[2 * i], keys[2 * i + 1], ["x", "y", "z", "w"][i % 4], *r.pick(&["first-release", "all-released"]))).collect();
            case.cfg = format!("(defcfg concurrent-tap-hold yes)\n(defsrc {})\n(deflayer l0 {})\n(defchordsv2 {})\n", keys.join(" "), keys.join(" "), ents.join(" "));
            if r.chance(500) {
                for i in 0..n {
                    ops.push(Op::Press(code(keys[2 * i])));
                    ops.push(Op::Press(code(keys[2 * i + 1])));
                    ops.push(Op::Gap(*r.pick(&[5u32, 20, 120])));
                }
                let mut rel: Vec<&str> = keys.to_vec();
                r.shuffle(&mut rel);
                for k in rel {
                    ops.push(Op::Release(code(k)));
                    ops.push(Op::Gap(*r.pick(&[0u32, 0, 1, 5])));
                }
            } else {
                for _ in 0..r.range(9, 14) {
                    ops.push(Op::Press(code(keys[0])));
                    ops.push(Op::Press(code(keys[1])));
                    ops.push(Op::Gap(20));
                }
                ops.push(Op::Release(code(keys[0])));
                ops.push(Op::Release(code(keys[1])));
            }
            ops.push(Op::Gap(700));
        }
        "huge-zippy-output" => {
            // a zippychord expansion as long as the file size allows: its length goes into 16-bit
            // counters when the chord is activated (and again when a follow-up supersedes it)
            let n = *r.pick(&[5000usize, 9999, 10000, 10001, 16000, 32768, 40000]);
            case.cfg = "(defsrc d y f)\n(deflayer l0 d y f)\n(defzippy zippy.txt)\n".to_string();
            case.files = vec![("zippy.txt".into(), format!("dy\t{}\ndy f\t{}b\n", "a".repeat(n), "a".repeat(n / 2)))];
            for k in ["d", "y"] {
                ops.push(Op::Press(code(k)));
                ops.push(Op::Gap(2));
            }
            for k in ["d", "y"] {
                ops.push(Op::Release(code(k)));
                ops.push(Op::Gap(2));
            }
            ops.push(Op::Press(code("f")));
            ops.push(Op::Gap(5));
            ops.push(Op::Release(code("f")));
            ops.push(Op::Gap(100));
        }
        "layer-holds-itself" => {
            // keys that hold the very layer they are on (several times) and contain several
            // transparent items: with layer-stack resolution every further copy of the layer in
            // the order repeats the whole action, once per transparent item
            let n_trans = r.range(2, 7) as usize;
            let n_hold = r.range(1, 3) as usize;
            let act = format!("(multi {} {})", vec!["(layer-while-held l0)"; n_hold].join(" "), vec!["_"; n_trans].join(" "));
            let keys = &KEYS[..6];
            case.cfg = format!(
                "(defcfg transparent-key-resolution {})\n(defsrc {})\n(deflayer l0 {})\n(deflayer l1 {})\n",
                *r.pick(&["layer-stack", "layer-stack", "to-base-layer"]),
                keys.join(" "),
                vec![act.as_str(); keys.len()].join(" "),
                vec!["_"; keys.len()].join(" ")
            );
            for k in keys.iter().take(r.range(2, 6) as usize) {
                ops.push(Op::Press(code(k)));
                ops.push(Op::Gap(*r.pick(&[0u32, 1, 5])));
            }
            for k in keys.iter() {
                ops.push(Op::Release(code(k)));
                ops.push(Op::Gap(1));
            }
            ops.push(Op::Gap(100));
        }
        "accumulators" => {
            // actions that add to a counter every time they run (sequence-noerase while a sequence is
            // active, movemouse-speed, nested layer holds): pressed over and over with large arguments
            let n1 = *r.pick(&[30000u64, 40000, 65535, 1]);
            case.cfg = format!(
                "(defcfg sequence-input-mode visible-backspaced sequence-timeout {})\n(defsrc a b c d)\n(defvirtualkeys v0 x)\n(deflayer l0 sldr (sequence-noerase {n1}) (movemouse-speed {}) (multi (sequence-noerase {n1}) d))\n(defseq v0 (d d d d))\n",
                *r.pick(&[1000u64, 30000, 65535]),
                *r.pick(&[1u64, 200, 65535])
            );
            let keys = ["a", "b", "b", "c", "d"];
            ops.push(Op::Press(code("a")));
            ops.push(Op::Gap(2));
            ops.push(Op::Release(code("a")));
            ops.push(Op::Gap(2));
            for _ in 0..r.range(3, 20) {
                let k = *r.pick(&keys);
                ops.push(Op::Press(code(k)));
                ops.push(Op::Gap(*r.pick(&[0u32, 1, 3])));
                ops.push(Op::Release(code(k)));
                ops.push(Op::Gap(*r.pick(&[0u32, 1, 3, 10])));
            }
            ops.push(Op::Gap(700));
        }
        "switch-depth" => {
            // boolean expressions nested up to and beyond what the evaluator's stack holds, the
            // deep operand at any position among its siblings, and a key state under which no level
            // short-circuits (and-siblings held, or-siblings not held): whatever the parser accepts
            // must be evaluable
            let held = ["a", "b", "c", "d", "e"];
            let idle = ["f", "g", "h", "i", "j"];
            fn node(r: &mut Rng, level: u32, depth: u32, and: bool, held: &[&str], idle: &[&str]) -> String {
                let pool = if and { held } else { idle };
                let nsib = r.range(0, 2) as usize;
                let mut items: Vec<String> = (0..nsib).map(|_| (*r.pick(pool)).to_string()).collect();
                if level < depth {
                    let at = r.below(items.len() as u64 + 1) as usize;
                    items.insert(at, node(r, level + 1, depth, !and, held, idle));
                } else if items.is_empty() {
                    items.push((*r.pick(pool)).to_string());
                }
                format!("({} {})", if and { "and" } else { "or" }, items.join(" "))
            }
            let depth = r.range(5, 11) as u32;
            let start_and = r.chance(500);
            let expr = node(r, 1, depth, start_and, &held, &idle);
            case.cfg = format!("(defsrc a b c d e f g h i j z)\n(deflayer l0 a b c d e f g h i j (switch ({expr}) x break () y break))\n");
            let cooperative = r.chance(700);
            let mut down: Vec<&str> = vec![];
            for k in held.iter().chain(idle.iter()) {
                let want = if cooperative { held.contains(k) } else { r.chance(500) };
                if want {
                    ops.push(Op::Press(code(k)));
                    ops.push(Op::Gap(r.range(1, 3) as u32));
                    down.push(k);
                }
            }
            ops.push(Op::Gap(5));
            for _ in 0..r.range(1, 3) {
                ops.push(Op::Press(code("z")));
                ops.push(Op::Gap(10));
                ops.push(Op::Release(code("z")));
                ops.push(Op::Gap(5));
            }
            for k in down {
                ops.push(Op::Release(code(k)));
                ops.push(Op::Gap(1));
            }
            ops.push(Op::Gap(50));
        }
        "oneshot-mods" => {
            let payloads = ["C-S-A-lmet", "C-S-lalt", "RC-RS-RA-rmet", "C-S-A-M-rsft", "lsft"];
            let n = r.range(1, 4) as usize;
            let acts: Vec<String> = (0..n).map(|_| format!("({} {} {})", *r.pick(&["one-shot", "one-shot-release", "one-shot-press-pcancel", "one-shot-release-pcancel"]), *r.pick(&[200u64, 2000, 5000]), *r.pick(&payloads))).collect();
            case.cfg = format!("(defsrc {} y z)\n(deflayer l0 {} y (multi a b c d e f g h))\n", KEYS[..n].join(" "), acts.join(" "));
            for _ in 0..r.range(3, 14) {
                let k = code(KEYS[r.below(n as u64) as usize]);
                ops.push(Op::Press(k));
                if r.chance(700) {
                    ops.push(Op::Gap(r.range(1, 5) as u32));
                    ops.push(Op::Release(k));
                }
                ops.push(Op::Gap(r.range(0, 6) as u32));
            }
            for _ in 0..r.range(1, 3) {
                let k = code(*r.pick(&["y", "z"]));
                ops.push(Op::Press(k));
                ops.push(Op::Gap(r.range(1, 20) as u32));
                ops.push(Op::Release(k));
                ops.push(Op::Gap(r.range(1, 20) as u32));
            }
            for k in &KEYS[..n] {
                ops.push(Op::Release(code(k)));
            }
            ops.push(Op::Gap(6000));
        }
        "macros" => {
            let n = r.range(5, 12) as usize;
            let acts: Vec<String> = (0..n).map(|i| match r.below(4) {
                0 => format!("(macro {} 20 {} 20 {})", KEYS[i], KEYS[i + 1], KEYS[i + 2]),
                1 => format!("(macro-repeat {} 5)", KEYS[i]),
                2 => format!("(macro-release-cancel S-({} 30 {}))", KEYS[i], KEYS[i + 1]),
                _ => format!("(macro C-({} 10 {}) 40 A-{})", KEYS[i], KEYS[i + 1], KEYS[i + 2]),
            }).collect();
            case.cfg = format!("(defsrc {})\n(deflayer l0 {})\n", KEYS[..n].join(" "), acts.join(" "));
            let mut order: Vec<&str> = KEYS[..n].to_vec();
            r.shuffle(&mut order);
            for k in &order {
                ops.push(Op::Press(code(k)));
                ops.push(Op::Gap(r.range(0, 4) as u32));
            }
            ops.push(Op::Gap(r.range(1, 200) as u32));
            r.shuffle(&mut order);
            for k in &order {
                ops.push(Op::Release(code(k)));
                ops.push(Op::Gap(r.range(0, 4) as u32));
            }
            ops.push(Op::Gap(800));
        }
        "layers" => {
            let n = r.range(10, 20) as usize;
            let mut cfg = format!("(defsrc {} z)\n", KEYS[..n].join(" "));
            let base: Vec<String> = (0..n).map(|i| format!("({} l{})", *r.pick(&["layer-while-held", "layer-toggle", "layer-while-held"]), i + 1)).collect();
            cfg.push_str(&format!("(deflayer l0 {} z)\n", base.join(" ")));
            for li in 1..=n {
                let row: Vec<String> = (0..n).map(|_| if r.chance(800) { "_".to_string() } else { "x".to_string() }).collect();
                cfg.push_str(&format!("(deflayer l{li} {} {})\n", row.join(" "), *r.pick(&["_", "y", "(multi _ lctl)"])));
            }
            case.cfg = cfg;
            let mut order: Vec<&str> = KEYS[..n].to_vec();
            r.shuffle(&mut order);
            for k in &order {
                ops.push(Op::Press(code(k)));
                ops.push(Op::Gap(r.range(0, 3) as u32));
            }
            ops.push(Op::Press(code("z")));
            ops.push(Op::Gap(5));
            ops.push(Op::Release(code("z")));
            r.shuffle(&mut order);
            for k in &order {
                ops.push(Op::Release(code(k)));
                ops.push(Op::Gap(r.range(0, 3) as u32));
            }
            ops.push(Op::Gap(100));
        }
        _ => {
            let n = r.range(8, 36) as usize;
            let acts: Vec<String> = (0..n).map(|i| format!("({} {} {} {} {})", *r.pick(&["tap-hold", "tap-hold-press", "tap-hold-release", "tap-hold-press-timeout", "tap-hold-release-timeout"]), 0, r.range(20, 400), KEYS[i], *r.pick(&["lsft", "lctl", "(layer-while-held l1)"])).replace("-timeout 0 ", "-timeout 0 ")).collect();
            let acts: Vec<String> = acts.iter().map(|a| if a.contains("-timeout ") { let mut x = a.trim_end_matches(')').to_string(); x.push_str(" z)"); x } else { a.clone() }).collect();
            case.cfg = format!("(defcfg concurrent-tap-hold {})\n(defsrc {})\n(deflayer l0 {})\n(deflayer l1 {})\n", if r.chance(600) { "yes" } else { "no" }, KEYS[..n].join(" "), acts.join(" "), vec!["_"; n].join(" "));
            let mut order: Vec<&str> = KEYS[..n].to_vec();
            r.shuffle(&mut order);
            for k in &order {
                ops.push(Op::Press(code(k)));
                if r.chance(400) {
                    ops.push(Op::Gap(r.range(0, 3) as u32));
                }
            }
            ops.push(Op::Gap(r.range(1, 500) as u32));
            r.shuffle(&mut order);
            for k in &order {
                ops.push(Op::Release(code(k)));
                if r.chance(400) {
                    ops.push(Op::Gap(r.range(0, 3) as u32));
                }
            }
            ops.push(Op::Gap(600));
        }
    }
    case.ops = ops;
    case
}

impl Prop for C02 {
    fn id(&self) -> &'static str {
        "C02"
    }
    fn rule_text(&self) -> String {
        "case = (config generated from the whole action grammar incl. actions in every context, boundary numerics, nesting <= 3; hostile history: any key code, press/release/repeat/tap, repeated presses, orphan releases, floods of up to 300 events in one ms, TCP-style virtual key ops, gaps up to 70 000 ms, clock jumps). Only parser-accepted configs are executed (rejected ones are counted under skipped). 3 of 8 cases advance time 2 / 7 / 300 ms per loop iteration (tick_ms(n)). non-trivial = the run produced at least one OS output event or reached a reach probe; distinct = distinct trace signature (sequence of output kind/key with gap buckets).".into()
    }
    fn runs(&self, tier: Tier) -> u64 {
        match tier {
            Tier::Quick => 48_000,
            Tier::Thorough => 1_500_000,
        }
    }
    fn gen(&self, seed: u64, tier: Tier) -> Case {
        let mut r = Rng::new(seed);
        if r.chance(50) {
            return gen_buffers(&mut r, seed);
        }
        let o = GenOpts { feats: feat::ALL_RUNTIME | feat::VKEY_RAW, max_keys: 10, max_layers: 5, max_depth: 3, hostile: true };
        let spec = gen_general(&mut r, &o);
        let mut case = Case { prop: "C02".into(), seed, cfg: spec_text(&spec), files: spec.files.clone(), ..Default::default() };
        let unfiltered = r.chance(400);
        let all_mapped = spec.defcfg.iter().any(|(k, v)| k == "process-unmapped-keys" && v.atom() == Some("yes"));
        let mut keys: Vec<u16> = spec.src.iter().map(|k| oscode_of(k)).filter(|c| *c != 0).collect();
        if unfiltered || all_mapped {
            // any code for which OsCode::from_u16 is Some
            let n = r.range(1, 6);
            for _ in 0..n {
                let c = loop {
                    let c = r.range(0, 767) as u16;
                    if kanata_parser::keys::OsCode::from_u16(c).is_some() {
                        break c;
                    }
                };
                keys.push(c);
            }
        }
        case.set("population", if unfiltered { "unfiltered" } else { "mapped" });
        let big = matches!(tier, Tier::Thorough) || r.chance(200);
        let ho = HistOpts {
            keys,
            max_events: if big { 200 } else { 60 },
            consistent: r.chance(300),
            repeats: true,
            tap_events: true,
            dup_orphan_permille: 150,
            burst_permille: *r.pick(&[0, 30, 100, 300]),
            max_burst: *r.pick(&[34usize, 40, 100, 300]),
            timeouts: spec.timeouts.clone(),
            long_gap_permille: 40,
            very_long_gap_permille: if r.chance(200) { 30 } else { 0 },
            max_gap: 70_000,
            vkeys: spec.vkeys.iter().map(|v| v.0.clone()).collect(),
            vkey_permille: 60,
            vkey_balanced: false,
            layers: spec.layer_names(),
            change_layer_permille: 20,
            clock_jump_permille: *r.pick(&[0, 0, 20, 100]),
        };
        case.ops = gen_history(&mut r, &ho);
        // bound the simulated time of one run: with something busy in every tick (a repeating or
        // self-retriggering macro, mouse movement) a tick costs ~20 us in this build, and a history
        // of 1.5 million ms would take longer than the per-run watchdog allows
        let mut total: u64 = 0;
        for op in case.ops.iter_mut() {
            if let Op::Gap(n) = op {
                if total > 300_000 && *n > 1_000 {
                    *n = 1_000;
                }
                total += *n as u64;
            }
        }
        case.set("mode", if r.chance(500) { "blocking" } else { "ticking" });
        case
    }
    fn check(&self, case: &Case, want_sample: bool) -> RunOut {
        let mode = if case.param("mode") == Some("blocking") { Mode::Blocking } else { Mode::Ticking };
        let r = if case.param("population") == Some("unfiltered") { Stepper::new(&case.cfg, &case.files, mode) } else { Stepper::new_filtered(&case.cfg, &case.files, mode) };
        let mut st = match r {
            Ok(s) => s,
            Err(_) => return RunOut::skip("parser-rejected"),
        };
        // "arbitrary time advances": in 3 of 8 cases one loop iteration covers 2, 7 or 300 ms
        // (tick_ms(n) with n > 1); derived from the case seed so that a replay repeats it
        st.batch = case.param_u64("batch").unwrap_or([1u64, 1, 1, 1, 1, 2, 7, 300][(case.seed % 8) as usize]);
        st.run_ops(&case.ops);
        st.finish();
        if st.flood {
            return RunOut::skip(if st.too_slow { "run-longer-than-6s-wall-clock" } else { "replay-fast-forward-output-flood" });
        }
        let mut o = RunOut::pass();
        if st.batch > 1 {
            o.count(&format!("schedule.late-loop-{}ms-per-iteration", st.batch), 1);
        }
        o.sim_ms = st.trace.sim_ms;
        o.sig = trace_sig(&st.trace.outs);
        probes_into(&mut o, &st.probes, &st.trace);
        fault_counts(&mut o, &case.ops);
        o.count(&format!("population.{}", case.param("population").unwrap_or("mapped")), 1);
        o.nontrivial = !st.trace.outs.is_empty();
        if let Some(e) = &st.tick_err {
            o.set_fail("C02:tick-returned-error", format!("tick_ms/handle_input_event returned Err although output is simulated: {e}"), vec![]);
        }
        // one run in twelve is repeated on the real processing-loop thread (executor B) under seeded
        // interleavings, step costs and 2-40 ms stalls: the loop must not panic ("processing loop
        // encountered error"), deadlock or spin, and must exit when its channel closes
        if !o.failed() && case.seed % 12 == 0 && case.ops.len() <= 400 && !case.ops.iter().any(|op| matches!(op, Op::ClockJump(_) | Op::TapEvt(_))) {
            use crate::exec_b::*;
            // bound the virtual duration: long gaps are capped (the stepper run above keeps them)
            let ops_b: Vec<Op> = case.ops.iter().map(|op| if let Op::Gap(n) = op { Op::Gap((*n).min(3_000)) } else { op.clone() }).collect();
            let sim = kanata_verif_rt::SimCfg { seed: case.seed, cost_max_ns: 300_000, switch_permille: 250, stall_permille: 20, stall_min_ns: 2_000_000, stall_max_ns: 40_000_000, sleep_overshoot_max_ns: 400_000, max_steps: 30_000_000, ..Default::default() };
            match run_b(&case.cfg, &case.files, &ops_b, &BOpts { sim, tcp_task: true, phase_us: 0 }) {
                Ok(b) => {
                    o.count("loop.runs-on-the-real-loop-thread", 1);
                    o.count("loop.scheduling-points", b.report.steps);
                    o.count("loop.stalls-injected", b.report.stalls);
                    if !b.report.panics.is_empty() {
                        o.set_fail("C02:processing-loop-panicked", format!("{:?}", b.report.panics), vec![]);
                    } else if b.report.deadlock || b.report.leaked > 0 || b.report.overrun {
                        o.set_fail("C02:processing-loop-did-not-terminate", format!("deadlock={} leaked tasks={} step overrun={}", b.report.deadlock, b.report.leaked, b.report.overrun), vec![]);
                    }
                }
                Err(e) if e.contains("simulation aborted") => o.set_fail("C02:processing-loop-panicked", e, vec![]),
                Err(_) => {}
            }
        }
        if want_sample {
            o.sample = Some(sample_json(case, &st.trace.outs, json!({"ticks": st.trace.ticks, "max_queue": st.probes.max_queue, "max_states": st.probes.max_states})));
        }
        o
    }
    fn assumptions(&self) -> Vec<String> {
        vec![
            "build profile: opt-level 2 with debug-assertions and overflow-checks ON (arithmetic slips panic instead of wrapping)".into(),
            "cmd*, clipboard-* and linux-x11-repeat-delay-rate are excluded from run-time generation (external world)".into(),
            "hang = a single run exceeding the 10 s wall-clock watchdog; abort/stack overflow = worker death attributed by the BEGIN protocol".into(),
        ]
    }
}
