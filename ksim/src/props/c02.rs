//! C02 — an accepted configuration never crashes or hangs event processing.

use super::common::*;
use super::*;
use crate::exec_a::*;
use crate::gen::*;
use crate::ops::*;
use crate::trace::*;
use serde_json::json;

pub struct C02;

impl Prop for C02 {
    fn id(&self) -> &'static str {
        "C02"
    }
    fn rule_text(&self) -> String {
        "case = (config generated from the whole action grammar incl. actions in every context, boundary numerics, nesting <= 3; hostile history: any key code, press/release/repeat/tap, repeated presses, orphan releases, floods of up to 300 events in one ms, TCP-style virtual key ops, gaps up to 70 000 ms, clock jumps). Only parser-accepted configs are executed (rejected ones are counted under skipped). non-trivial = the run produced at least one OS output event or reached a reach probe; distinct = distinct trace signature (sequence of output kind/key with gap buckets).".into()
    }
    fn runs(&self, tier: Tier) -> u64 {
        match tier {
            Tier::Quick => 48_000,
            Tier::Thorough => 1_500_000,
        }
    }
    fn gen(&self, seed: u64, tier: Tier) -> Case {
        let mut r = Rng::new(seed);
        let o = GenOpts { feats: feat::ALL_RUNTIME | feat::VKEY_RAW, max_keys: 10, max_layers: 5, max_depth: 3, hostile: true };
        let spec = gen_general(&mut r, &o);
        let mut case = Case { prop: "C02".into(), seed, cfg: spec_text(&spec), files: spec.files.clone(), ..Default::default() };
        let unfiltered = r.chance(400);
        let all_mapped = spec.defcfg.iter().any(|(k, v)| k == "process-unmapped-keys" && v.atom() == Some("yes"));
        let mut keys: Vec<u16> = spec.src.iter().map(|k| oscode_of(k)).filter(|c| *c != 0).collect();
        if unfiltered || all_mapped {
            // any code for which OsCode::from_u16 is Some
            let n = r.range(1, 6);
            for _ in 0..n {
                let c = loop {
                    let c = r.range(0, 767) as u16;
                    if kanata_parser::keys::OsCode::from_u16(c).is_some() {
                        break c;
                    }
                };
                keys.push(c);
            }
        }
        case.set("population", if unfiltered { "unfiltered" } else { "mapped" });
        let big = matches!(tier, Tier::Thorough) || r.chance(200);
        let ho = HistOpts {
            keys,
            max_events: if big { 200 } else { 60 },
            consistent: r.chance(300),
            repeats: true,
            tap_events: true,
            dup_orphan_permille: 150,
            burst_permille: *r.pick(&[0, 30, 100, 300]),
            max_burst: *r.pick(&[34usize, 40, 100, 300]),
            timeouts: spec.timeouts.clone(),
            long_gap_permille: 40,
            very_long_gap_permille: if r.chance(200) { 30 } else { 0 },
            max_gap: 70_000,
            vkeys: spec.vkeys.iter().map(|v| v.0.clone()).collect(),
            vkey_permille: 60,
            vkey_balanced: false,
            layers: spec.layer_names(),
            change_layer_permille: 20,
            clock_jump_permille: *r.pick(&[0, 0, 20, 100]),
        };
        case.ops = gen_history(&mut r, &ho);
        case.set("mode", if r.chance(500) { "blocking" } else { "ticking" });
        case
    }
    fn check(&self, case: &Case, want_sample: bool) -> RunOut {
        let mode = if case.param("mode") == Some("blocking") { Mode::Blocking } else { Mode::Ticking };
        let r = if case.param("population") == Some("unfiltered") { Stepper::new(&case.cfg, &case.files, mode) } else { Stepper::new_filtered(&case.cfg, &case.files, mode) };
        let mut st = match r {
            Ok(s) => s,
            Err(_) => return RunOut::skip("parser-rejected"),
        };
        st.run_ops(&case.ops);
        st.finish();
        let mut o = RunOut::pass();
        o.sim_ms = st.trace.sim_ms;
        o.sig = trace_sig(&st.trace.outs);
        probes_into(&mut o, &st.probes, &st.trace);
        fault_counts(&mut o, &case.ops);
        o.count(&format!("population.{}", case.param("population").unwrap_or("mapped")), 1);
        o.nontrivial = !st.trace.outs.is_empty();
        if let Some(e) = &st.tick_err {
            o.set_fail("C02:tick-returned-error", format!("tick_ms/handle_input_event returned Err although output is simulated: {e}"), vec![]);
        }
        // one run in twelve is repeated on the real processing-loop thread (executor B) under seeded
        // interleavings, step costs and 2-40 ms stalls: the loop must not panic ("processing loop
        // encountered error"), deadlock or spin, and must exit when its channel closes
        if !o.failed() && case.seed % 12 == 0 && case.ops.len() <= 400 && !case.ops.iter().any(|op| matches!(op, Op::ClockJump(_) | Op::TapEvt(_))) {
            use crate::exec_b::*;
            // bound the virtual duration: long gaps are capped (the stepper run above keeps them)
            let ops_b: Vec<Op> = case.ops.iter().map(|op| if let Op::Gap(n) = op { Op::Gap((*n).min(3_000)) } else { op.clone() }).collect();
            let sim = kanata_verif_rt::SimCfg { seed: case.seed, cost_max_ns: 300_000, switch_permille: 250, stall_permille: 20, stall_min_ns: 2_000_000, stall_max_ns: 40_000_000, sleep_overshoot_max_ns: 400_000, max_steps: 30_000_000, ..Default::default() };
            match run_b(&case.cfg, &case.files, &ops_b, &BOpts { sim, tcp_task: true, phase_us: 0 }) {
                Ok(b) => {
                    o.count("loop.runs-on-the-real-loop-thread", 1);
                    o.count("loop.scheduling-points", b.report.steps);
                    o.count("loop.stalls-injected", b.report.stalls);
                    if !b.report.panics.is_empty() {
                        o.set_fail("C02:processing-loop-panicked", format!("{:?}", b.report.panics), vec![]);
                    } else if b.report.deadlock || b.report.leaked > 0 || b.report.overrun {
                        o.set_fail("C02:processing-loop-did-not-terminate", format!("deadlock={} leaked tasks={} step overrun={}", b.report.deadlock, b.report.leaked, b.report.overrun), vec![]);
                    }
                }
                Err(e) if e.contains("simulation aborted") => o.set_fail("C02:processing-loop-panicked", e, vec![]),
                Err(_) => {}
            }
        }
        if want_sample {
            o.sample = Some(sample_json(case, &st.trace.outs, json!({"ticks": st.trace.ticks, "max_queue": st.probes.max_queue, "max_states": st.probes.max_states})));
        }
        o
    }
    fn assumptions(&self) -> Vec<String> {
        vec![
            "build profile: opt-level 2 with debug-assertions and overflow-checks ON (arithmetic slips panic instead of wrapping)".into(),
            "cmd*, clipboard-* and linux-x11-repeat-delay-rate are excluded from run-time generation (external world)".into(),
            "hang = a single run exceeding the 10 s wall-clock watchdog; abort/stack overflow = worker death attributed by the BEGIN protocol".into(),
        ]
    }
}
