//! C03 — configuration parsing is total: every text yields a config or a diagnostic.
//! Fault injection on the storage seam: the bytes the parser reads are the "disk".

use super::*;
use crate::gen::*;
use crate::ops::*;
use crate::sx::*;
use serde_json::json;
use std::path::{Path, PathBuf};
use std::sync::OnceLock;

pub struct C03;

static CORPUS: OnceLock<Vec<(String, String)>> = OnceLock::new();

pub fn corpus() -> &'static Vec<(String, String)> {
    CORPUS.get_or_init(|| {
        let mut v = vec![];
        if let Ok(rd) = std::fs::read_dir(format!("{}/corpus", crate::runner::verif_dir())) {
            let mut names: Vec<PathBuf> = rd.filter_map(|e| e.ok()).map(|e| e.path()).filter(|p| p.extension().map(|x| x == "kbd").unwrap_or(false)).collect();
            names.sort();
            for p in names {
                if let Ok(s) = std::fs::read_to_string(&p) {
                    if s.len() <= 64 * 1024 {
                        v.push((p.file_name().unwrap().to_string_lossy().to_string(), s));
                    }
                }
            }
        }
        if v.is_empty() {
            v.push(("builtin.kbd".into(), "(defsrc a b)\n(deflayer base b a)\n".into()));
        }
        v
    })
}

/// Extract the corpus from /repo (samples, docs, tests) into /verif/corpus.
pub fn build_corpus() -> std::io::Result<usize> {
    let dir_s = format!("{}/corpus", crate::runner::verif_dir());
    let dir = Path::new(&dir_s);
    std::fs::create_dir_all(dir)?;
    let mut n = 0;
    let mut write = |name: String, text: &str| -> std::io::Result<()> {
        if text.len() <= 64 * 1024 && text.contains("(def") {
            std::fs::write(dir.join(name), text)?;
            n += 1;
        }
        Ok(())
    };
    // shipped samples
    let mut stack = vec![PathBuf::from("/repo/cfg_samples")];
    while let Some(d) = stack.pop() {
        if let Ok(rd) = std::fs::read_dir(&d) {
            for e in rd.flatten() {
                let p = e.path();
                if p.is_dir() {
                    stack.push(p);
                } else if p.extension().map(|x| x == "kbd").unwrap_or(false) {
                    if let Ok(s) = std::fs::read_to_string(&p) {
                        let name = format!("sample_{}", p.strip_prefix("/repo/cfg_samples").unwrap().to_string_lossy().replace('/', "_"));
                        write(name, &s)?;
                    }
                }
            }
        }
    }
    // parser test cfgs
    if let Ok(rd) = std::fs::read_dir("/repo/parser/test_cfgs") {
        for e in rd.flatten() {
            let p = e.path();
            if p.extension().map(|x| x == "kbd").unwrap_or(false) {
                if let Ok(s) = std::fs::read_to_string(&p) {
                    write(format!("testcfg_{}", p.file_name().unwrap().to_string_lossy()), &s)?;
                }
            }
        }
    }
    // docs: code blocks
    if let Ok(doc) = std::fs::read_to_string("/repo/docs/config.adoc") {
        let mut i = 0;
        let mut in_block = false;
        let mut cur = String::new();
        for line in doc.lines() {
            if line.trim() == "----" {
                if in_block {
                    if cur.contains("(defsrc") && cur.contains("(deflayer") {
                        write(format!("doc_{i:03}.kbd"), &cur)?;
                        i += 1;
                    } else if cur.contains('(') && cur.len() < 4000 {
                        // fragment: wrap into a minimal config so it reaches the sub-parsers
                        let wrapped = format!("(defsrc a b c d)\n(deflayer base a b c d)\n{cur}");
                        write(format!("docfrag_{i:03}.kbd"), &wrapped)?;
                        i += 1;
                    }
                    cur.clear();
                }
                in_block = !in_block;
            } else if in_block {
                cur.push_str(line);
                cur.push('\n');
            }
        }
    }
    // sim tests: string literals that look like configs
    let mut tstack = vec![PathBuf::from("/repo/src/tests"), PathBuf::from("/repo/parser/src/cfg/tests")];
    tstack.push(PathBuf::from("/repo/parser/src/cfg/tests.rs"));
    let mut ti = 0;
    while let Some(d) = tstack.pop() {
        if d.is_dir() {
            if let Ok(rd) = std::fs::read_dir(&d) {
                for e in rd.flatten() {
                    tstack.push(e.path());
                }
            }
        } else if d.extension().map(|x| x == "rs").unwrap_or(false) {
            if let Ok(s) = std::fs::read_to_string(&d) {
                // crude: split on `"` and `r#"` boundaries, keep chunks with (defsrc
                for chunk in s.split("\"#").flat_map(|c| c.split("r#\"")) {
                    if chunk.contains("(defsrc") && chunk.len() < 8000 && !chunk.contains("fn ") {
                        write(format!("test_{ti:03}.kbd"), chunk)?;
                        ti += 1;
                    }
                }
                for chunk in s.split('"') {
                    if chunk.contains("(defsrc") && chunk.len() < 8000 && !chunk.contains("fn ") && !chunk.contains("r#") {
                        write(format!("test_{ti:03}.kbd"), chunk)?;
                        ti += 1;
                    }
                }
            }
        }
    }
    Ok(n)
}

const DELIMS: &[&str] = &["(", ")", "\"", "#", "|", ";", " ", "\n", "r#\"", "\"#", "#|", "|#", "$", "@", "-", "é", "🔣", "(())", "()", "\u{feff}"];
const BOUNDARY_NUMS: &[&str] = &["0", "1", "2", "255", "256", "767", "768", "65535", "65536", "4294967296", "-1", "99999999999999999999", "1.5", "0x10"];

fn mutate_text(r: &mut Rng, text: &str) -> (String, &'static str) {
    let kind = r.pick_w(&[14, 10, 12, 30, 8, 6]);
    match kind {
        0 => {
            // torn / short read: prefix cut at a char boundary
            let mut cut = r.below(text.len() as u64 + 1) as usize;
            while cut > 0 && !text.is_char_boundary(cut) {
                cut -= 1;
            }
            (text[..cut].to_string(), "fault.torn_prefix")
        }
        1 => {
            // corrupted bytes: substitute/insert/delete near delimiters
            let mut s = text.to_string();
            let n = r.range(1, 2);
            for _ in 0..n {
                if s.is_empty() {
                    break;
                }
                // bias to delimiter positions
                let positions: Vec<usize> = s.char_indices().filter(|(_, c)| "()\"#|;$@".contains(*c)).map(|(i, _)| i).collect();
                let pos = if !positions.is_empty() && r.chance(700) {
                    *r.pick(&positions)
                } else {
                    let mut p = r.below(s.len() as u64) as usize;
                    while p > 0 && !s.is_char_boundary(p) {
                        p -= 1;
                    }
                    p
                };
                let ins = *r.pick(DELIMS);
                match r.below(3) {
                    0 => s.insert_str(pos, ins),
                    1 => {
                        let ch_len = s[pos..].chars().next().map(|c| c.len_utf8()).unwrap_or(0);
                        s.replace_range(pos..pos + ch_len, ins);
                    }
                    _ => {
                        let ch_len = s[pos..].chars().next().map(|c| c.len_utf8()).unwrap_or(0);
                        s.replace_range(pos..pos + ch_len, "");
                    }
                }
            }
            (s, "fault.corrupted_bytes")
        }
        2 => {
            // lost / duplicated / reordered writes at line granularity
            let mut lines: Vec<&str> = text.lines().collect();
            if lines.len() >= 2 {
                let i = r.below(lines.len() as u64) as usize;
                match r.below(3) {
                    0 => {
                        lines.remove(i);
                    }
                    1 => {
                        let l = lines[i];
                        lines.insert(i, l);
                    }
                    _ => {
                        let j = r.below(lines.len() as u64) as usize;
                        lines.swap(i, j);
                    }
                }
            }
            (lines.join("\n"), "fault.lost_dup_reordered_line")
        }
        3 => (mutate_struct(r, text), "mutation.structural"),
        4 => {
            // number -> boundary
            let Some(mut forms) = parse_top(text) else { return (text.to_string(), "mutation.none") };
            let mut paths = vec![];
            for (fi, f) in forms.iter().enumerate() {
                f.walk(&mut vec![], &mut |p, n| {
                    if let SX::A(s) = n {
                        if s.parse::<u64>().is_ok() {
                            paths.push((fi, p.to_vec()));
                        }
                    }
                });
            }
            if paths.is_empty() {
                return (mutate_struct(r, text), "mutation.structural");
            }
            let (fi, p) = r.pick(&paths).clone();
            forms[fi] = forms[fi].replace_at(&p, a(*r.pick(BOUNDARY_NUMS)));
            (print_top(&forms), "mutation.number_to_boundary")
        }
        _ => {
            // unterminated string / comment
            let mut s = text.to_string();
            let mut pos = r.below(s.len() as u64 + 1) as usize;
            while pos > 0 && !s.is_char_boundary(pos) {
                pos -= 1;
            }
            s.insert_str(pos, *r.pick(&["\"", "r#\"", "#|", " \"abc", "|#", ";; ("]));
            (s, "fault.unterminated_string_or_comment")
        }
    }
}

fn mutate_struct(r: &mut Rng, text: &str) -> String {
    let Some(mut forms) = parse_top(text) else { return text.to_string() };
    if forms.is_empty() {
        return text.to_string();
    }
    let n = r.range(1, 3);
    for _ in 0..n {
        let fi = r.below(forms.len() as u64) as usize;
        let mut paths: Vec<Vec<usize>> = vec![];
        forms[fi].walk(&mut vec![], &mut |p, _| paths.push(p.to_vec()));
        let p = r.pick(&paths).clone();
        let node = forms[fi].get(&p).cloned().unwrap();
        let repl: Option<SX> = match r.below(15) {
            12 | 13 | 14 => {
                // hoist the node behind a chain of 1-3 variables (valid indirection: the config
                // must load exactly as before, in particular not crash)
                let hops = r.range(1, 3);
                let base = format!("zc{}", r.below(1000));
                let mut defs = vec![a("defvar"), a(format!("{base}0")), node.clone()];
                for h in 1..hops {
                    defs.push(a(format!("{base}{h}")));
                    defs.push(a(format!("${base}{}", h - 1)));
                }
                forms.insert(0, l(defs));
                // (the insertion shifted the form indices by one)
                let fi2 = fi + 1;
                let x = a(format!("${base}{}", hops - 1));
                forms[fi2] = if p.is_empty() { x } else { forms[fi2].replace_at(&p, x) };
                continue;
            }
            0 => None, // delete
            1 => Some(l(vec![])),
            2 => Some(a("zzunknown")),
            3 => {
                // splice a random other subtree
                let fj = r.below(forms.len() as u64) as usize;
                let mut p2: Vec<Vec<usize>> = vec![];
                forms[fj].walk(&mut vec![], &mut |p, _| p2.push(p.to_vec()));
                { let pp: Vec<usize> = r.pick(&p2).clone(); forms[fj].get(&pp).cloned() }
            }
            4 => Some(l(vec![node.clone()])),
            5 => match &node {
                SX::L(v) if !v.is_empty() => Some(v[0].clone()),
                _ => Some(l(vec![])),
            },
            6 => Some(a("$selfref")),
            7 => Some(a(format!("${}", node.atom().unwrap_or("x")))),
            8 => Some(a(format!("@{}", node.atom().unwrap_or("x")))),
            9 => match &node {
                // drop arguments of a list action: (head)
                SX::L(v) if !v.is_empty() => Some(l(vec![v[0].clone()])),
                _ => Some(a("\"\"")),
            },
            10 => match &node {
                // duplicate last argument
                SX::L(v) if !v.is_empty() => {
                    let mut v2 = v.clone();
                    v2.push(v[v.len() - 1].clone());
                    Some(l(v2))
                }
                _ => Some(a("_")),
            },
            _ => match &node {
                SX::L(v) if v.len() >= 2 => {
                    let mut v2 = v.clone();
                    let i = r.below(v2.len() as u64) as usize;
                    v2.remove(i);
                    Some(l(v2))
                }
                _ => Some(a(*r.pick(&["t!", "template-expand", "include", "concat", "if-equal", "defvar", "()", "O-", "S-", "nop0", "🔣"]))),
            },
        };
        forms[fi] = match repl {
            Some(x) => {
                if p.is_empty() {
                    x
                } else {
                    forms[fi].replace_at(&p, x)
                }
            }
            None => {
                if p.is_empty() {
                    l(vec![])
                } else {
                    forms[fi].remove_at(&p)
                }
            }
        };
    }
    // occasionally add hostile top-level forms
    if r.chance(150) {
        let extra = *r.pick(&[
            "(defvar selfref $selfref)",
            "(defvar a $b b $a)",
            "(deftemplate t1 (x) (t! t1 $x))\n(t! t1 a)",
            "(deftemplate t2 (x) $x)\n(defalias q (t! t2 (t! t2 (t! t2 a))))",
            "(defalias () a)",
            "(defalias x (on-press-fakekey-delay))",
            "(defchordsv2 (a b) c 100 all-released ())",
            "(defchordsv2 (include nofile.txt))",
            "(defzippy nofile.txt)",
            "(defseq s1 (a b) s1 (a b c))",
            "(defvirtualkeys v1 (multi lctl lsft))",
            "(defaliasenvcond (X y) q a)",
            "(platform (linux) (defalias pl a))",
            "(platform () )",
            "(environment (X y) (defalias en a))",
            "(deflayermap (m1) a b ___ c)",
            "(deflocalkeys-linux kk 300)",
            "(defoverrides (lsft a) (b))",
            "(defcfg process-unmapped-keys (all-except a))",
            "(include)",
            "(include a b)",
            "(deftemplate)",
            "(deftemplate x)",
            "(t!)",
            "(defvar)",
            "(defvar x)",
            "(defsrc)",
            "(deflayer)",
            "(deflayer ())",
            "(defchords)",
            "(defchords g)",
            "(defchords g 0 (a) b)",
            "(defseq)",
            "(defseq x)",
            "(defoverrides ())",
            "(defzippy)",
            "(defvirtualkeys x)",
        ]);
        return format!("{}\n{}", print_top(&forms), extra);
    }
    print_top(&forms)
}

/// 'template-program' population: small random programs for the template engine. Template bodies
/// and call arguments are drawn from a pool that contains the expansion keywords themselves, the
/// template names (also the template's own and later ones), the variables, conditionals and nested
/// lists - so an expansion can be produced by substitution rather than written literally, which is
/// what the declaration-order validation of deftemplate does not see.
fn gen_template_program(r: &mut Rng) -> String {
    const NAMES: &[&str] = &["ta", "tb", "tc"];
    fn item(r: &mut Rng, nv: usize, depth: u32) -> String {
        if depth >= 3 || r.chance(560) {
            match r.pick_w(&[30, 18, 6, 18, 14, 4, 4, 6]) {
                0 if nv > 0 => format!("$v{}", r.below(nv as u64)),
                1 => "t!".into(),
                2 => "template-expand".into(),
                3 => (*r.pick(NAMES)).into(),
                4 => (*r.pick(&["a", "b", "1", "x"])).into(),
                5 => (*r.pick(&["if-equal", "if-not-equal", "if-in-list", "if-not-in-list"])).into(),
                6 => "concat".into(),
                _ => "()".into(),
            }
        } else {
            let n = r.range(0, 4);
            let v: Vec<String> = (0..n).map(|_| item(r, nv, depth + 1)).collect();
            format!("({})", v.join(" "))
        }
    }
    let nt = r.range(1, 3) as usize;
    let mut out = String::from("(defsrc a b)\n");
    let mut nvs = vec![];
    for ti in 0..nt {
        let nv = r.range(0, 2) as usize;
        nvs.push(nv);
        let vars: Vec<String> = (0..nv).map(|i| format!("v{i}")).collect();
        let mut body: Vec<String> = vec![];
        for _ in 0..r.range(1, 3) {
            if ti > 0 && r.chance(300) {
                // a well-formed literal call of an earlier template
                let tj = r.below(ti as u64) as usize;
                let args: Vec<String> = (0..nvs[tj]).map(|_| item(r, nv, 2)).collect();
                body.push(format!("(t! {} {})", NAMES[tj], args.join(" ")));
            } else {
                body.push(item(r, nv, 0));
            }
        }
        out.push_str(&format!("(deftemplate {} ({}) {})\n", NAMES[ti], vars.join(" "), body.join(" ")));
    }
    let mut calls: Vec<String> = vec![];
    for _ in 0..r.range(1, 3) {
        let tj = r.below(nt as u64) as usize;
        let n = if r.chance(900) { nvs[tj] } else { r.range(0, 3) as usize };
        let args: Vec<String> = (0..n).map(|_| item(r, 0, 1)).collect();
        calls.push(format!("({} {} {})", r.pick(&["t!", "template-expand"]), NAMES[tj], args.join(" ")));
    }
    match r.below(3) {
        0 => {
            out.push_str(&format!("(deflayer base {} b)\n", calls[0]));
            for c in &calls[1..] {
                out.push_str(&format!("{c}\n"));
            }
        }
        1 => {
            out.push_str("(deflayer base @q b)\n");
            out.push_str(&format!("(defalias q {})\n", calls.join(" q2 ")));
        }
        _ => {
            out.push_str("(deflayer base a b)\n");
            // the call is the first element of an enclosing list
            out.push_str(&format!("({})\n", calls.join(" ")));
            out.push_str(&format!("{}\n", calls[0]));
        }
    }
    out
}

impl Prop for C03 {
    fn id(&self) -> &'static str {
        "C03"
    }
    fn level(&self) -> &'static str {
        "fault_enumeration"
    }
    fn rule_text(&self) -> String {
        "case = a valid configuration (shipped samples, configs embedded in docs and tests, grammar-generated configs) with one seeded fault on the storage seam: torn prefix, corrupted bytes near delimiters / multi-byte chars, lost/duplicated/reordered lines, unterminated string/comment, include/zippy/chords-v2 file missing / empty / self-including / included twice / not UTF-8 / a directory; plus structure-aware input mutations (delete/duplicate/splice sub-expressions, atom->(), name->unknown, $self-reference, number->boundary) labelled as mutation.* in 'fired'; plus a 'capacity' population (764-770 virtual keys over several deffakekeys / defvirtualkeys blocks: the row has 767 columns); plus a 'deep-nesting' population (lists and actions nested 60 - 5000 levels deep, literally or through chains of variables / templates) and a 'template-program' population (random deftemplate bodies and call arguments drawn from a pool that contains t!/template-expand, the template names incl. the template's own, variables, conditionals, nested lists - expansions that arise by substitution). Both new_from_str (in-memory file provider) and new_from_file (real files in a private tmpfs dir) are exercised. non-trivial = the text differs from its seed config and is non-empty; distinct = distinct (outcome class, hash of error message shape | accepted) x text hash.".into()
    }
    fn runs(&self, tier: Tier) -> u64 {
        match tier {
            Tier::Quick => 1_500_000,
            Tier::Thorough => 60_000_000,
        }
    }
    fn gen(&self, seed: u64, _tier: Tier) -> Case {
        let mut r = Rng::new(seed);
        let mut case = Case { prop: "C03".into(), seed, ..Default::default() };
        if r.chance(1) {
            // 'deep-nesting' population: lists / actions nested hundreds or thousands of levels
            // deep, written literally or built up through chains of variables and templates.
            // Loading must end with a diagnostic, not with an exhausted stack.
            let n = *r.pick(&[60usize, 127, 128, 129, 200, 600, 2000, 5000]);
            let wrap = *r.pick(&[("(multi ", ")"), ("(tap-dance 200 (", "))"), ("(one-shot 100 ", ")"), ("(fork ", " b ())"), ("(tap-hold 10 10 a ", ")"), ("(macro ", ")"), ("(", ")"), ("(switch () ", " break)")]);
            case.cfg = match r.below(5) {
                0 | 1 => format!("(defsrc a)\n(deflayer l0 {}a{})\n", wrap.0.repeat(n), wrap.1.repeat(n)),
                2 => {
                    // chain of variables, each wrapping the previous one
                    let m = n.min(600);
                    let mut t = String::from("(defsrc a)\n(defvar v0 a\n");
                    for i in 1..m {
                        t.push_str(&format!(" v{i} {}$v{}{}\n", wrap.0, i - 1, wrap.1));
                    }
                    t.push_str(&format!(")\n(deflayer l0 $v{})\n", m - 1));
                    t
                }
                3 => {
                    let m = n.min(150);
                    let mut t = String::from("(defsrc a)\n(deftemplate t0 () a)\n");
                    for i in 1..m {
                        t.push_str(&format!("(deftemplate t{i} () {}(t! t{}){})\n", wrap.0, i - 1, wrap.1));
                    }
                    t.push_str(&format!("(deflayer l0 (t! t{}))\n", m - 1));
                    t
                }
                _ => format!("(defsrc a)\n(deflayer l0 a)\n({} {}x{})\n", r.pick(&["defalias q", "defcfg", "defvar w", "defchordsv2", "defseq s", "deftemplate tt ()", "defoverrides"]), "(".repeat(n), ")".repeat(n)),
            };
            case.set("base", "deep-nesting");
            case.set("fault", "mutation.deep_nesting");
            // same size bound as everything else (a cut leaves the nesting unbalanced, still deep)
            if case.cfg.len() > 64 * 1024 {
                case.cfg.truncate(64 * 1024);
            }
            return case;
        }
        if r.chance(2) {
            // 'capacity' population: item counts right at the fixed capacities of the loader
            // (the virtual-key row has 767 columns): 764..770 virtual keys, split over any
            // number of deffakekeys / defvirtualkeys blocks, the last ones used by a key and a
            // sequence. One key more or fewer must make the difference between a loaded
            // configuration and a diagnostic, nothing else.
            let total = r.range(764, 770) as usize;
            let mut t = String::from("(defsrc a b)\n");
            let mut made = 0usize;
            while made < total {
                let n = (r.range(1, 500) as usize).min(total - made);
                let (head, act) = if r.chance(500) { ("deffakekeys", "XX") } else { ("defvirtualkeys", "x") };
                t.push_str(&format!("({head}"));
                for i in made..made + n {
                    t.push_str(&format!(" k{i} {act}"));
                }
                t.push_str(")\n");
                made += n;
            }
            t.push_str(&format!("(deflayer l0 (on-press tap-vkey k{}) (on-press toggle-vkey k{}))\n(defseq k{} (a b))\n", total - 1, total / 2, total - 1));
            case.cfg = t;
            case.set("base", "capacity");
            case.set("fault", "mutation.capacity_boundary");
            return case;
        }
        if r.chance(40) {
            case.cfg = gen_template_program(&mut r);
            case.set("base", "template-program");
            case.set("fault", "mutation.template_program");
            return case;
        }
        // base text
        let (base, files, src) = if r.chance(450) {
            let o = GenOpts { feats: (1u64 << 42) - 1, max_keys: 6, max_layers: 3, max_depth: 3, hostile: true };
            let spec = gen_general(&mut r, &o);
            (spec_text(&spec), spec.files.clone(), "generated")
        } else {
            let c = corpus();
            // prefer small configs (fast) but sample all
            let (n, t) = r.pick(c);
            let _ = n;
            (t.clone(), vec![], "corpus")
        };
        case.set("base", src);
        case.files = files;
        let fault_class = r.pick_w(&[70, 18, 12]);
        match fault_class {
            0 => {
                let (t, kind) = mutate_text(&mut r, &base);
                case.cfg = t;
                case.set("fault", kind);
            }
            1 => {
                // file provider faults through new_from_str's file_content seam
                let Some(mut forms) = parse_top(&base) else {
                    case.cfg = base;
                    case.set("fault", "mutation.none");
                    return case;
                };
                // move some top-level forms (not defsrc/deflayer/defcfg) into an included file
                let mut inc: Vec<SX> = vec![];
                let mut keep: Vec<SX> = vec![];
                for f in forms.drain(..) {
                    let h = f.head().unwrap_or("").to_string();
                    if !matches!(h.as_str(), "defsrc" | "defcfg" | "deflayer" | "deflayermap") && r.chance(500) {
                        inc.push(f);
                    } else {
                        keep.push(f);
                    }
                }
                let pos = r.below(keep.len() as u64 + 1) as usize;
                keep.insert(pos, call("include", vec![a("inc.kbd")]));
                let inc_text = print_top(&inc);
                let kind = match r.below(7) {
                    0 => {
                        // missing
                        "fault.include_missing"
                    }
                    1 => {
                        case.files.push(("inc.kbd".into(), String::new()));
                        "fault.include_empty"
                    }
                    2 => {
                        keep.push(call("include", vec![a("inc.kbd")]));
                        case.files.push(("inc.kbd".into(), inc_text));
                        "fault.include_twice"
                    }
                    3 => {
                        case.files.push(("inc.kbd".into(), format!("{inc_text}\n(include inc.kbd)\n")));
                        "fault.include_itself"
                    }
                    4 => {
                        let (t, _) = mutate_text(&mut r, &inc_text);
                        case.files.push(("inc.kbd".into(), t));
                        "fault.include_corrupted"
                    }
                    5 => {
                        let mut cut = r.below(inc_text.len() as u64 + 1) as usize;
                        while cut > 0 && !inc_text.is_char_boundary(cut) {
                            cut -= 1;
                        }
                        case.files.push(("inc.kbd".into(), inc_text[..cut].to_string()));
                        "fault.include_torn"
                    }
                    _ => {
                        case.files.push(("inc.kbd".into(), inc_text));
                        "fault.none_include_ok"
                    }
                };
                case.cfg = print_top(&keep);
                case.set("fault", kind);
            }
            _ => {
                // real files: new_from_file with faults on the main file / auxiliary files
                case.cfg = base.clone();
                case.set("via", "file");
                let kind = match r.below(8) {
                    0 => "fault.file_missing",
                    1 => "fault.file_is_directory",
                    2 => {
                        // cut inside a multi-byte char => not UTF-8
                        "fault.file_not_utf8"
                    }
                    3 => {
                        case.cfg = String::new();
                        "fault.file_empty"
                    }
                    4 => {
                        case.cfg = format!("{base}\n(defzippy zz_missing.txt)\n");
                        "fault.zippy_file_missing"
                    }
                    5 => {
                        case.cfg = format!("{base}\n(defcfg concurrent-tap-hold yes)\n(defchordsv2 (include zz_missing.txt))\n");
                        "fault.chordsv2_include_missing"
                    }
                    6 => {
                        case.cfg = format!("{base}\n(include zz_dir)\n");
                        case.set("mkdir", "zz_dir");
                        "fault.include_is_directory"
                    }
                    _ => {
                        let (t, _) = mutate_text(&mut r, &base);
                        case.cfg = t;
                        "fault.file_corrupted"
                    }
                };
                case.set("fault", kind);
                case.set("nonce", r.next_u64() % 1_000_000);
            }
        }
        // bound size and depth so that a stack overflow or hang is a finding, not an artefact
        if case.cfg.len() > 64 * 1024 {
            let mut cut = 64 * 1024;
            while !case.cfg.is_char_boundary(cut) {
                cut -= 1;
            }
            case.cfg.truncate(cut);
        }
        case
    }

    fn check(&self, case: &Case, want_sample: bool) -> RunOut {
        let mut o = RunOut::pass();
        let fault = case.param("fault").unwrap_or("none").to_string();
        o.count(&fault, 1);
        o.count(&format!("base.{}", case.param("base").unwrap_or("?")), 1);
        // depth bound
        let mut depth = 0i32;
        let mut maxd = 0i32;
        for b in case.cfg.bytes() {
            if b == b'(' {
                depth += 1;
                maxd = maxd.max(depth);
            } else if b == b')' {
                depth -= 1;
            }
        }
        if maxd > 64 {
            o.count("probe.paren-depth>64", 1);
        }
        let (outcome, msg) = if case.param("via") == Some("file") {
            check_via_file(case, &mut o)
        } else {
            check_via_str(case, &mut o)
        };
        o.count(&format!("outcome.{outcome}"), 1);
        o.sim_ms = 0;
        o.nontrivial = !case.cfg.is_empty();
        // distinct: outcome + message shape + text hash
        let shape: String = msg.chars().filter(|c| !c.is_ascii_digit()).take(60).collect();
        o.sig = crate::trace::fnv(crate::trace::fnv(0, shape.as_bytes()), case.cfg.as_bytes());
        if want_sample {
            let mut t = case.cfg.clone();
            if t.len() > 600 {
                let mut cut = 600;
                while !t.is_char_boundary(cut) {
                    cut -= 1;
                }
                t.truncate(cut);
                t.push_str("…");
            }
            o.sample = Some(json!({"seed": format!("{:#x}", case.seed), "fault": fault, "outcome": outcome, "message": msg.lines().next().unwrap_or(""), "text": t, "files": case.files.iter().map(|f| f.0.clone()).collect::<Vec<_>>() }));
        }
        o
    }
    fn assumptions(&self) -> Vec<String> {
        vec![
            "text <= 64 KiB and parenthesis depth <= 64 (beyond that a stack overflow would be an artefact of size)".into(),
            "environment variables are not supplied (defaliasenvcond / environment take their 'unsupported' path for new_from_str; new_from_file sees the worker's scrubbed environment)".into(),
            "termination = the 10 s per-run watchdog of the worker".into(),
        ]
    }
    fn components(&self) -> serde_json::Value {
        json!({"real": ["kanata_parser::cfg::new_from_str / new_from_file / parse_cfg_raw_string (lexer, template expansion, includes, every sub-parser)", "miette report construction and Debug rendering (what --check and live reload print)"],
               "stub": ["file provider for new_from_str (in-memory map = the seam the project already has)", "tmpfs directory for new_from_file"]})
    }
}

fn span_check(o: &mut RunOut, pe: &kanata_parser::cfg::ParseError, main_text: &str, files: &[(String, String)]) {
    if let Some(sp) = &pe.span {
        let (s, e) = (sp.start(), sp.end());
        let content = sp.file_content();
        let fname = sp.file_name();
        // the content the span refers to must be the content of the file it names
        let actual: Option<&str> = if fname == "configuration" || fname.ends_with("main.kbd") {
            Some(main_text)
        } else {
            files.iter().find(|f| f.0 == fname).map(|f| f.1.as_str())
        };
        if s > e || e > content.len() {
            o.set_fail("C03:span-outside-file", format!("span {s}..{e} but the named file '{fname}' has {} bytes; msg: {}", content.len(), pe.msg), vec![]);
            return;
        }
        if !content.is_char_boundary(s) || !content.is_char_boundary(e) {
            o.set_fail("C03:span-not-char-aligned", format!("span {s}..{e} in '{fname}' is not on char boundaries; msg: {}", pe.msg), vec![]);
            return;
        }
        if let Some(act) = actual {
            // BOM is stripped by the lexer? compare leniently: the span must fit the actual file too
            if e > act.len() && e > content.len() {
                o.set_fail("C03:span-outside-file", format!("span {s}..{e} exceeds actual content of '{fname}' ({} bytes)", act.len()), vec![]);
            }
        }
    }
}

fn check_via_str(case: &Case, o: &mut RunOut) -> (&'static str, String) {
    use kanata_parser::cfg::*;
    let mut m: rustc_hash::FxHashMap<String, String> = Default::default();
    for (k, v) in &case.files {
        m.insert(k.clone(), v.clone());
    }
    match new_from_str(&case.cfg, m.clone()) {
        Ok(_) => ("accepted", String::new()),
        Err(report) => {
            // exactly what --check / live reload do with it
            let rendered = format!("{report:?}");
            // span check through the same parser entry that returns the structured error
            let mut s = ParserState::default();
            let mut get = |p: &Path| -> std::result::Result<String, String> { m.get(p.to_string_lossy().as_ref()).cloned().ok_or_else(|| "File is not known".to_string()) };
            let r = parse_cfg_raw_string(&case.cfg, &mut s, &PathBuf::from("configuration"), &mut FileContentProvider::new(&mut get), "deflocalkeys-linux", Err("environment variables are not supported".into()));
            if let Err(pe) = r {
                span_check(o, &pe, &case.cfg, &case.files);
                let _ = rendered.len();
                return ("diagnostic", pe.msg.clone());
            }
            ("diagnostic", rendered.lines().nth(1).unwrap_or("").to_string())
        }
    }
}

fn check_via_file(case: &Case, o: &mut RunOut) -> (&'static str, String) {
    let base = if Path::new("/dev/shm").is_dir() { "/dev/shm".to_string() } else { format!("{}/work", crate::runner::verif_dir()) };
    let dir = PathBuf::from(format!("{base}/ksim-c03-{}-{}", std::process::id(), case.param("nonce").unwrap_or("0")));
    let _ = std::fs::remove_dir_all(&dir);
    if std::fs::create_dir_all(&dir).is_err() {
        return ("harness-skip", String::new());
    }
    let main = dir.join("main.kbd");
    let fault = case.param("fault").unwrap_or("");
    match fault {
        "fault.file_missing" => {}
        "fault.file_is_directory" => {
            let _ = std::fs::create_dir_all(&main);
        }
        "fault.file_not_utf8" => {
            let mut bytes = case.cfg.as_bytes().to_vec();
            bytes.extend_from_slice(&[b'(', 0xC3]); // first byte of a 2-byte char, torn
            bytes.extend_from_slice(b"defalias x \xff)");
            let _ = std::fs::write(&main, bytes);
        }
        _ => {
            let _ = std::fs::write(&main, case.cfg.as_bytes());
        }
    }
    if let Some(d) = case.param("mkdir") {
        let _ = std::fs::create_dir_all(dir.join(d));
    }
    for (k, v) in &case.files {
        let _ = std::fs::write(dir.join(k), v);
    }
    let r = kanata_parser::cfg::new_from_file(&main);
    let out = match r {
        Ok(_) => ("accepted", String::new()),
        Err(report) => {
            let rendered = format!("{report:?}");
            // location check through miette's diagnostic API
            if let (Some(labels), Some(src)) = (report.labels(), report.source_code()) {
                for l in labels {
                    if src.read_span(l.inner(), 0, 0).is_err() {
                        o.set_fail("C03:span-outside-file", format!("label {}..+{} cannot be read from the attached source; report: {}", l.offset(), l.len(), rendered.lines().take(3).collect::<Vec<_>>().join(" | ")), vec![]);
                    }
                }
            }
            ("diagnostic", rendered.lines().find(|l| l.contains("help:")).unwrap_or("").to_string())
        }
    };
    let _ = std::fs::remove_dir_all(&dir);
    out
}
