//! C04 — layered remapping fidelity: refinement against a small reference model of the layered
//! keymap, written from the property statement and docs/config.adoc (not from the parser or
//! keyberon): FIFO of pending events, one consumed per ms; ordered entry list; transparent search
//! order; release by coordinate; OS output = ordered, de-duplicated difference per ms.

use super::common::*;
use super::*;
use crate::exec_a::*;
use crate::gen::*;
use crate::ops::*;
use crate::sx::*;
use crate::trace::*;
use serde_json::json;

pub struct C04;

const KEYS: &[&str] = &["a", "b", "c", "d", "e", "f"];
const OUTS: &[&str] = &["a", "b", "c", "x", "y", "z", "1", "2", "lsft", "lctl", "ralt", "spc"];

// ------------------------------------------------------------------------------------------
// generator
// ------------------------------------------------------------------------------------------

fn gen_action(r: &mut Rng, layers: &[String], depth: usize) -> SX {
    let w: &[u32] = if depth >= 2 { &[10, 4, 2, 4, 1, 0, 3, 2, 1, 1] } else { &[10, 4, 2, 5, 1, 5, 5, 3, 2, 2] };
    match r.pick_w(w) {
        0 => a(*r.pick(OUTS)),
        1 => {
            let n = r.range(1, 2);
            let mut s = String::new();
            let mut used: Vec<&str> = vec![];
            for _ in 0..n {
                let p = *r.pick(&["C-", "S-", "A-", "M-", "RA-", "RC-", "RS-"]);
                if !used.contains(&p) {
                    used.push(p);
                    s.push_str(p);
                }
            }
            s.push_str(*r.pick(&["a", "b", "x", "1", "spc"]));
            a(s)
        }
        2 => a("XX"),
        3 => a("_"),
        4 => a("use-defsrc"),
        5 => {
            let n = r.range(2, 3);
            call("multi", (0..n).map(|_| gen_action(r, layers, depth + 1)).collect())
        }
        6 => call(*r.pick(&["layer-while-held", "layer-toggle"]), vec![a(r.pick(layers).clone())]),
        7 => call("layer-switch", vec![a(r.pick(layers).clone())]),
        8 => call("release-key", vec![a(*r.pick(OUTS))]),
        _ => call("release-layer", vec![a(r.pick(layers).clone())]),
    }
}

// ------------------------------------------------------------------------------------------
// reference model
// ------------------------------------------------------------------------------------------

#[derive(Clone, Debug, PartialEq)]
enum Ent {
    Key { code: String, coord: u16, clear_on_next_action: bool },
    Layer { idx: usize, coord: u16 },
}

struct Model {
    src: Vec<u16>,
    /// per layer: coord -> action (explicit); missing = default
    layers: Vec<std::collections::HashMap<u16, SX>>,
    layer_names: Vec<String>,
    block_unmapped: bool,
    layer_stack_resolution: bool,
    delegate: bool,
    process_unmapped: bool,
    mapped: Vec<u16>,
    // dynamic
    entries: Vec<Ent>,
    multi_depth: u32,
    default_layer: usize,
    pending: std::collections::VecDeque<(bool, u16)>,
    prev_keys: Vec<String>,
    now: u64,
    out: Vec<(u64, bool, String)>,
    max_pending: usize,
    /// work counter: self-stacking layer configs make nested transparent resolution explode
    work: u64,
}

fn key_display(name: &str) -> Option<String> {
    let c = oscode_of(name);
    if c == 0 && name != "0" {
        return None;
    }
    Some(code_name(c))
}

impl Model {
    fn from_cfg(cfg: &str) -> Option<Model> {
        let forms = parse_top(cfg)?;
        let mut m = Model {
            src: vec![],
            layers: vec![],
            layer_names: vec![],
            block_unmapped: false,
            layer_stack_resolution: true,
            delegate: false,
            process_unmapped: false,
            mapped: vec![],
            entries: vec![],
            multi_depth: 0,
            default_layer: 0,
            pending: Default::default(),
            prev_keys: vec![],
            now: 0,
            out: vec![],
            max_pending: 0,
            work: 0,
        };
        for f in &forms {
            let v = f.list()?;
            match f.head()? {
                "defcfg" => {
                    for pair in v[1..].chunks(2) {
                        let (k, val) = (pair[0].atom()?, pair.get(1)?.atom().unwrap_or(""));
                        match k {
                            "block-unmapped-keys" => m.block_unmapped = val == "yes",
                            "transparent-key-resolution" => m.layer_stack_resolution = val == "layer-stack",
                            "delegate-to-first-layer" => m.delegate = val == "yes",
                            "process-unmapped-keys" => m.process_unmapped = val == "yes",
                            _ => {}
                        }
                    }
                }
                "defsrc" => {
                    for k in &v[1..] {
                        m.src.push(oscode_of(k.atom()?));
                    }
                }
                "deflayer" => {
                    let mut map = std::collections::HashMap::new();
                    m.layer_names.push(v[1].atom()?.to_string());
                    for (i, ac) in v[2..].iter().enumerate() {
                        map.insert(*m.src.get(i)?, ac.clone());
                    }
                    m.layers.push(map);
                }
                "deflayermap" => {
                    let mut map = std::collections::HashMap::new();
                    m.layer_names.push(v[1].list()?.first()?.atom()?.to_string());
                    let mut wildcard: Option<SX> = None;
                    for pair in v[2..].chunks(2) {
                        let k = pair[0].atom()?;
                        if k == "_" {
                            wildcard = Some(pair[1].clone());
                        } else {
                            let c = oscode_of(k);
                            map.insert(c, pair[1].clone());
                            if !m.mapped.contains(&c) {
                                m.mapped.push(c);
                            }
                        }
                    }
                    if let Some(w) = wildcard {
                        // `_` maps every defsrc key that has no explicit mapping in this layer
                        for c in &m.src {
                            map.entry(*c).or_insert_with(|| w.clone());
                        }
                    }
                    m.layers.push(map);
                }
                _ => {}
            }
        }
        for c in m.src.clone() {
            if !m.mapped.contains(&c) {
                m.mapped.push(c);
            }
        }
        Some(m)
    }

    fn is_mapped(&self, c: u16) -> bool {
        self.process_unmapped || self.mapped.contains(&c)
    }

    fn layer_idx(&self, name: &str) -> Option<usize> {
        self.layer_names.iter().position(|n| n == name)
    }

    fn cell(&self, layer: usize, coord: u16) -> SX {
        match self.layers[layer].get(&coord) {
            Some(a_) => a_.clone(),
            None => {
                if self.block_unmapped {
                    a("XX")
                } else {
                    a("_")
                }
            }
        }
    }

    fn current_layer(&self) -> usize {
        self.entries
            .iter()
            .rev()
            .find_map(|e| match e {
                Ent::Layer { idx, .. } => Some(*idx),
                _ => None,
            })
            .unwrap_or(self.default_layer)
    }

    /// the stated search order
    fn search_order(&self) -> Vec<usize> {
        let cur = self.current_layer();
        let mut v: Vec<usize> = vec![];
        if self.layer_stack_resolution {
            // each layer is searched once, at its most recent position ("from most recently
            // activated to oldest, then the base layer, then the first layer")
            for e in self.entries.iter().rev() {
                if let Ent::Layer { idx, .. } = e {
                    if !v.contains(idx) {
                        v.push(*idx);
                    }
                }
            }
            if !v.contains(&self.default_layer) {
                v.push(self.default_layer);
            }
            if self.delegate && cur != 0 && self.default_layer != 0 && !v.contains(&0) {
                v.push(0);
            }
        } else {
            v.push(cur);
            if self.delegate && cur != 0 {
                v.push(0);
            }
        }
        v
    }

    fn is_trans(ac: &SX) -> bool {
        ac.atom() == Some("_")
    }

    /// resolve a transparent action: continue the search at position `pos` of `order`
    fn resolve(&self, coord: u16, order: &[usize], pos: &mut usize) -> SX {
        while *pos < order.len() {
            let ac = self.cell(order[*pos], coord);
            *pos += 1;
            if !Self::is_trans(&ac) {
                return ac;
            }
        }
        // the defsrc key itself
        a(format!("#key{coord}"))
    }

    fn do_action(&mut self, ac: &SX, coord: u16, order: &[usize], pos: usize) {
        self.work += 1;
        if self.work > 200_000 || self.entries.len() > 64 {
            return;
        }
        let mut pos = pos;
        let ac = if Self::is_trans(ac) { self.resolve(coord, order, &mut pos) } else { ac.clone() };
        // before any action, keys flagged clear-on-next-action go (the items of one multi are one
        // action in this respect: an output chord inside a multi survives the items after it)
        if self.multi_depth == 0 {
            self.entries.retain(|e| !matches!(e, Ent::Key { clear_on_next_action: true, .. }));
        }
        match &ac {
            SX::A(s) => {
                if s == "XX" {
                } else if let Some(c) = s.strip_prefix("#key") {
                    let code: u16 = c.parse().unwrap_or(0);
                    self.entries.push(Ent::Key { code: code_name(code), coord, clear_on_next_action: false });
                } else if s == "use-defsrc" {
                    self.entries.push(Ent::Key { code: code_name(coord), coord, clear_on_next_action: false });
                } else if let Some(d) = key_display(s) {
                    self.entries.push(Ent::Key { code: d, coord, clear_on_next_action: false });
                } else {
                    // output chord: prefixes then key
                    let mut rest = s.as_str();
                    let mut keys: Vec<String> = vec![];
                    loop {
                        let mut hit = false;
                        for (p, k) in [("RA-", "ralt"), ("AG-", "ralt"), ("RC-", "rctl"), ("RS-", "rsft"), ("RM-", "rmet"), ("C-", "lctl"), ("S-", "lsft"), ("A-", "lalt"), ("M-", "lmet")] {
                            if let Some(r2) = rest.strip_prefix(p) {
                                keys.push(key_display(k).unwrap());
                                rest = r2;
                                hit = true;
                                break;
                            }
                        }
                        if !hit {
                            break;
                        }
                    }
                    keys.push(key_display(rest).unwrap_or_else(|| format!("?{rest}")));
                    for k in keys {
                        self.entries.push(Ent::Key { code: k, coord, clear_on_next_action: true });
                    }
                }
            }
            SX::L(v) => {
                let head = v[0].atom().unwrap_or("");
                match head {
                    "multi" => {
                        self.multi_depth += 1;
                        for sub in &v[1..] {
                            self.do_action(sub, coord, order, pos);
                        }
                        self.multi_depth -= 1;
                    }
                    "layer-while-held" | "layer-toggle" => {
                        if let Some(i) = self.layer_idx(v[1].atom().unwrap_or("")) {
                            self.entries.push(Ent::Layer { idx: i, coord });
                        }
                    }
                    "layer-switch" => {
                        if let Some(i) = self.layer_idx(v[1].atom().unwrap_or("")) {
                            self.default_layer = i;
                        }
                    }
                    "release-key" => {
                        if let Some(d) = key_display(v[1].atom().unwrap_or("")) {
                            self.entries.retain(|e| !matches!(e, Ent::Key { code, .. } if *code == d));
                        }
                    }
                    "release-layer" => {
                        if let Some(i) = self.layer_idx(v[1].atom().unwrap_or("")) {
                            self.entries.retain(|e| !matches!(e, Ent::Layer { idx, .. } if *idx == i));
                        }
                    }
                    _ => {}
                }
            }
        }
    }

    fn tick(&mut self) {
        self.now += 1;
        if let Some((press, coord)) = self.pending.pop_front() {
            if press {
                let order = self.search_order();
                self.do_action(&a("_"), coord, &order, 0);
            } else {
                self.entries.retain(|e| match e {
                    Ent::Key { coord: c, .. } | Ent::Layer { coord: c, .. } => *c != coord,
                });
            }
        }
        let cur: Vec<String> = self
            .entries
            .iter()
            .filter_map(|e| match e {
                Ent::Key { code, .. } => Some(code.clone()),
                _ => None,
            })
            .collect();
        for k in self.prev_keys.clone() {
            if !cur.contains(&k) {
                self.out.push((self.now, false, k));
            }
        }
        let mut pressed: Vec<String> = self.prev_keys.clone();
        for k in &cur {
            if !pressed.contains(k) {
                pressed.push(k.clone());
                self.out.push((self.now, true, k.clone()));
            }
        }
        // (one OS release per key, however many entries held it down)
        let mut cur_dedup: Vec<String> = vec![];
        for k in cur {
            if !cur_dedup.contains(&k) {
                cur_dedup.push(k);
            }
        }
        self.prev_keys = cur_dedup;
    }

    fn run(&mut self, ops: &[Op]) {
        for op in ops {
            match op {
                Op::Press(c) | Op::Release(c) => {
                    if self.is_mapped(*c) {
                        self.pending.push_back((matches!(op, Op::Press(_)), *c));
                        self.max_pending = self.max_pending.max(self.pending.len());
                    }
                }
                Op::Gap(n) => {
                    for _ in 0..*n {
                        self.tick();
                    }
                }
                _ => {}
            }
        }
    }
}

impl Prop for C04 {
    fn id(&self) -> &'static str {
        "C04"
    }
    fn rule_text(&self) -> String {
        "case = config in the layered fragment (plain keys, output chords, multi, XX, _, use-defsrc, layer-while-held, layer-switch, release-key, release-layer; 1-4 layers as deflayer / deflayermap, 2-6 mapped keys, both transparent-key-resolution values, delegate-to-first-layer, block-unmapped-keys, process-unmapped-keys) x physically consistent history (<= 60 events, gaps {0,1,2,3}, fewer than 32 events pending, OS repeat events of held keys in between - their own output is not compared, everything else must be unaffected). Oracle: the OS output sequence (ms, kind, key) equals the reference model's, event for event. non-trivial = >= 3 output events and at least one layer change; distinct = output trace signature x config hash.".into()
    }
    fn runs(&self, tier: Tier) -> u64 {
        match tier {
            Tier::Quick => 500_000,
            Tier::Thorough => 20_000_000,
        }
    }
    fn gen(&self, seed: u64, tier: Tier) -> Case {
        let mut r = Rng::new(seed);
        let nk = r.range(2, 6) as usize;
        let nl = r.range(1, 4) as usize;
        let keys: Vec<&str> = KEYS[..nk].to_vec();
        let layers: Vec<String> = (0..nl).map(|i| format!("l{i}")).collect();
        let mut cfg = String::new();
        let mut opts: Vec<String> = vec![];
        let pum = r.chance(400);
        if pum {
            opts.push("process-unmapped-keys yes".into());
        }
        if r.chance(250) {
            opts.push("block-unmapped-keys yes".into());
        }
        if r.chance(500) {
            opts.push(format!("transparent-key-resolution {}", r.pick(&["to-base-layer", "layer-stack"])));
        }
        if r.chance(400) {
            opts.push(format!("delegate-to-first-layer {}", r.pick(&["yes", "no"])));
        }
        if !opts.is_empty() {
            cfg.push_str(&format!("(defcfg {})\n", opts.join(" ")));
        }
        cfg.push_str(&format!("(defsrc {})\n", keys.join(" ")));
        for (li, name) in layers.iter().enumerate() {
            if li > 0 && r.chance(350) {
                let mut pairs: Vec<String> = vec![];
                for k in &keys {
                    if r.chance(600) {
                        pairs.push(format!("{k} {}", gen_action(&mut r, &layers, 0).to_text()));
                    }
                }
                if r.chance(250) {
                    // a key outside defsrc becomes mapped through the layer map
                    pairs.push(format!("g {}", gen_action(&mut r, &layers, 0).to_text()));
                }
                if r.chance(250) {
                    pairs.push(format!("_ {}", gen_action(&mut r, &layers, 1).to_text()));
                }
                cfg.push_str(&format!("(deflayermap ({name}) {})\n", pairs.join(" ")));
            } else {
                let acts: Vec<String> = keys.iter().map(|_| gen_action(&mut r, &layers, 0).to_text()).collect();
                cfg.push_str(&format!("(deflayer {name} {})\n", acts.join(" ")));
            }
        }
        let mut case = Case { prop: "C04".into(), seed, cfg, ..Default::default() };
        // history: consistent, small gaps, < 32 pending
        let mut hk: Vec<u16> = keys.iter().map(|k| oscode_of(k)).collect();
        hk.push(oscode_of("g"));
        if pum || r.chance(200) {
            hk.push(oscode_of("h"));
        }
        let n = r.range(2, if matches!(tier, Tier::Thorough) { 60 } else { 40 });
        let mut down: Vec<u16> = vec![];
        let mut pending = 0i64;
        let mut ops = vec![];
        // OS auto-repeat events of held keys are sprinkled in: they are answered at once, outside
        // the tick, and must not disturb what the surrounding presses and releases do
        let with_repeats = r.chance(400);
        for _ in 0..n {
            if with_repeats && !down.is_empty() && r.chance(150) {
                ops.push(Op::Repeat(*r.pick(&down)));
                if r.chance(400) {
                    ops.push(Op::Gap(1));
                    pending = (pending - 1).max(0);
                }
            }
            let can: Vec<u16> = hk.iter().copied().filter(|k| !down.contains(k)).collect();
            if !can.is_empty() && (down.is_empty() || r.chance(520)) {
                let k = *r.pick(&can);
                down.push(k);
                ops.push(Op::Press(k));
            } else {
                let i = r.below(down.len() as u64) as usize;
                ops.push(Op::Release(down.remove(i)));
            }
            pending += 1;
            let mut g = *r.pick(&[0u32, 0, 1, 1, 1, 2, 3]);
            if pending >= 24 && g == 0 {
                g = 2;
            }
            if g > 0 {
                ops.push(Op::Gap(g));
                pending = (pending - g as i64).max(0);
            }
        }
        r.shuffle(&mut down);
        for k in down {
            ops.push(Op::Release(k));
            ops.push(Op::Gap(*r.pick(&[0u32, 1, 2])));
        }
        ops.push(Op::Gap(50));
        case.ops = ops;
        case
    }

    fn check(&self, case: &Case, want_sample: bool) -> RunOut {
        if !history_consistent(&case.ops) {
            return RunOut::skip("history-not-consistent");
        }
        let mut st = match Stepper::new_filtered(&case.cfg, &case.files, Mode::Ticking) {
            Ok(s) => s,
            Err(_) => return RunOut::skip("parser-rejected"),
        };
        let Some(mut m) = Model::from_cfg(&case.cfg) else { return RunOut::skip("model-cannot-read-config") };
        st.run_ops(&case.ops);
        st.gap(40);
        st.finish();
        m.run(&case.ops);
        for _ in 0..40 {
            m.tick();
        }
        let mut o = RunOut::pass();
        o.sim_ms = st.trace.sim_ms;
        probes_into(&mut o, &st.probes, &st.trace);
        if m.max_pending >= 32 || st.probes.max_queue >= 32 {
            return RunOut::skip("queue-at-32 (outside the stated precondition)");
        }
        if m.work > 200_000 || m.entries.len() > 64 || st.probes.max_states >= 64 {
            // the model has no 64-entry capacity; only reachable with self-stacking layer configs
            return RunOut::skip("state-vector-full (64 entries)");
        }
        if st.probes.max_held_layers > 10 {
            // the layer stack consulted for transparent keys has 12 slots (10 held + default + first)
            return RunOut::skip("more-than-10-held-layers (layer stack capacity)");
        }
        let real: Vec<(u64, bool, String)> = st.trace.outs.iter().filter(|e| matches!(e.kind, OutKind::Press | OutKind::Release)).map(|e| (e.t, e.kind == OutKind::Press, e.key.clone())).collect();
        let other = st.trace.outs.iter().filter(|e| !matches!(e.kind, OutKind::Press | OutKind::Release | OutKind::RepeatOut)).count();
        o.sig = fnv(trace_sig(&st.trace.outs), case.cfg.as_bytes());
        let layer_changes = case.cfg.contains("layer-");
        o.nontrivial = real.len() >= 3 && layer_changes;
        if other > 0 {
            o.set_fail("C04:unexpected-output-kind", format!("non-key outputs in the layered fragment: {}", outs_short(&st.trace.outs)), vec![]);
        }
        if real != m.out {
            let i = real.iter().zip(m.out.iter()).position(|(x, y)| x != y).unwrap_or(real.len().min(m.out.len()));
            let fmt = |v: &Vec<(u64, bool, String)>| v.iter().skip(i.saturating_sub(3)).take(8).map(|(t, p, k)| format!("{t}@{}{k}", if *p { "↓" } else { "↑" })).collect::<Vec<_>>().join(" ");
            o.set_fail("C04:differs-from-layered-keymap-model", format!("output event #{i} differs. real: [{}] model: [{}] (real {} events, model {})", fmt(&real), fmt(&m.out), real.len(), m.out.len()), vec![]);
        }
        if want_sample {
            o.sample = Some(sample_json(case, &st.trace.outs, json!({"model_events": m.out.len(), "max_pending": m.max_pending})));
        }
        o
    }
    fn assumptions(&self) -> Vec<String> {
        vec![
            "runs in which 32 or more events are pending are excluded (the statement's precondition) and counted under skipped".into(),
            "key names -> output names use kanata's own name table (key identity is property C11, not applicable here)".into(),
        ]
    }
}
