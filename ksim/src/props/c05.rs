//! C05 — tap-hold resolves every press to exactly one of tap / hold / timeout, on time.

use super::common::*;
use super::*;
use crate::exec_a::*;
use crate::gen::*;
use crate::ops::*;
use crate::trace::*;
use serde_json::json;

pub struct C05;

const VARIANTS: &[&str] = &[
    "tap-hold",
    "tap-hold-press",
    "tap-hold-release",
    "tap-hold-press-timeout",
    "tap-hold-release-timeout",
    "tap-hold-release-keys",
    "tap-hold-except-keys",
];

fn th_action(variant: &str, w: u64, h: u64, tap: &str, hold: &str, to: &str, keys: &[&str]) -> String {
    match variant {
        "tap-hold-press-timeout" | "tap-hold-release-timeout" => format!("({variant} {w} {h} {tap} {hold} {to})"),
        "tap-hold-release-keys" | "tap-hold-except-keys" => format!("({variant} {w} {h} {tap} {hold} ({}))", keys.join(" ")),
        _ => format!("({variant} {w} {h} {tap} {hold})"),
    }
}

#[derive(Clone, Copy, Debug, PartialEq)]
enum Decision {
    Tap,
    Hold,
    Timeout,
}

/// Reference decision for ONE tap-hold press that arrives at time 0 into a drained engine
/// (dequeued in tick 1). `evs`: (arrival time, is_press, key) of everything arriving afterwards
/// (including the tap-hold key's own release, key = "a"). Returns (decision, tick).
/// Written from the documentation of the variants + the tick conventions in DESIGN.md D5.
fn reference_decision(variant: &str, h: u64, concurrent: bool, list: &[&str], evs: &[(u64, bool, &str)], horizon: u64) -> Option<(Decision, u64)> {
    let t0: i64 = if concurrent { h as i64 - 1 } else { h as i64 };
    for k in 2..=horizon {
        // queue content visible in tick k: arrived at time <= k-1
        let q_all: Vec<&(u64, bool, &str)> = evs.iter().filter(|e| e.0 <= k - 1).collect();
        // the early triggers are about what other keys do WHILE the key is held: in arrival order,
        // nothing after the key's own release counts
        let cut = q_all.iter().position(|e| !e.1 && e.2 == "a").unwrap_or(q_all.len());
        let q: Vec<&(u64, bool, &str)> = q_all[..cut].to_vec();
        let timeout_now = (t0 - (k as i64 - 1)).max(0);
        let mut skip_timeout = false;
        match variant {
            "tap-hold-press" | "tap-hold-press-timeout" => {
                if q.iter().any(|e| e.1 && e.2 != "a") {
                    return Some((Decision::Hold, k));
                }
            }
            "tap-hold-release" | "tap-hold-release-timeout" => {
                for (i, e) in q.iter().enumerate() {
                    if e.1 && e.2 != "a" && q[i + 1..].iter().any(|r| !r.1 && r.2 == e.2) {
                        return Some((Decision::Hold, k));
                    }
                }
            }
            "tap-hold-release-keys" => {
                for (i, e) in q.iter().enumerate() {
                    if e.1 && e.2 != "a" {
                        if list.contains(&e.2) {
                            return Some((Decision::Tap, k));
                        }
                        if q[i + 1..].iter().any(|r| !r.1 && r.2 == e.2) {
                            return Some((Decision::Hold, k));
                        }
                    }
                }
            }
            "tap-hold-except-keys" => {
                match q.iter().find(|e| e.1 && e.2 != "a") {
                    Some(e) => {
                        if list.contains(&e.2) {
                            return Some((Decision::Tap, k));
                        }
                    }
                    None => skip_timeout = true,
                }
            }
            _ => {}
        }
        if q_all.iter().any(|e| !e.1 && e.2 == "a") {
            // release seen in the tick after its arrival: tap iff the hold time has not elapsed
            return Some((if timeout_now > 0 { Decision::Tap } else { Decision::Timeout }, k));
        }
        if timeout_now == 0 && !skip_timeout {
            return Some((Decision::Timeout, k));
        }
    }
    None
}

fn check_second_pending(case: &Case, want_sample: bool) -> RunOut {
    if !history_consistent(&case.ops) {
        return RunOut::skip("history-not-consistent");
    }
    let mut st = match Stepper::new_filtered(&case.cfg, &case.files, Mode::Ticking) {
        Ok(s) => s,
        Err(_) => return RunOut::skip("parser-rejected"),
    };
    st.run_ops(&case.ops);
    st.gap(400);
    st.finish();
    let outs = st.trace.outs.clone();
    let mut o = RunOut::pass();
    o.sim_ms = st.trace.sim_ms;
    o.count("pop.second-pending", 1);
    let mut sig = fnv(0, case.cfg.as_bytes());
    for op in &case.ops {
        sig = fnv(sig, op.short().as_bytes());
    }
    o.sig = sig;
    if st.probes.max_extra_waiting > 0 {
        o.count("probe.two-tap-hold-decisions-pending-at-once", 1);
    }
    let presses: Vec<&OutEv> = outs.iter().filter(|e| e.kind == OutKind::Press).collect();
    o.nontrivial = presses.iter().any(|e| e.key == "P" || e.key == "Q");
    let d = st.down_set();
    if !d.is_empty() {
        o.set_fail("C05:stuck-after-release", format!("keys still down at the end: {:?}: {}", d.keys, outs_short(&outs)), vec![]);
    }
    let n1 = presses.iter().filter(|e| e.key == "X" || e.key == "Y").count();
    let n2 = presses.iter().filter(|e| e.key == "P" || e.key == "Q").count();
    let nb = presses.iter().filter(|e| e.key == "Kb1").count();
    // only histories in which the chord did activate as a tap-hold are judged (j and k may also
    // come out singly when they are too far apart)
    if n2 == 0 {
        return o;
    }
    if (n1, n2, nb) != (1, 1, 1) && !o.failed() {
        o.set_fail("C05:not-exactly-one-outcome", format!("first tap-hold {n1}, chord tap-hold {n2}, plain key {nb} press outputs (expected 1 each): {}", outs_short(&outs)), vec![]);
    }
    if !o.failed() {
        let pos = |keys: &[&str]| presses.iter().position(|e| keys.contains(&e.key.as_str())).unwrap_or(usize::MAX);
        let (p1, p2, pb) = (pos(&["X", "Y"]), pos(&["P", "Q"]), pos(&["Kb1"]));
        // (with concurrent-tap-hold the two decisions may come in either order; the plain key,
        // pressed after both, comes after both)
        if !(p1 < pb && p2 < pb) {
            o.set_fail(
                "C05:buffered-key-output-before-decision",
                format!("press order was tap-hold key, chord (a second tap-hold), plain key; the outputs came as {:?}: {}", presses.iter().map(|e| e.key.clone()).collect::<Vec<_>>(), outs_short(&outs)),
                vec![],
            );
        }
    }
    if want_sample {
        o.sample = Some(sample_json(case, &outs, serde_json::json!({"pop": "second-pending"})));
    }
    o
}

fn check_queued_second(case: &Case, want_sample: bool) -> RunOut {
    let mut st = match Stepper::new_filtered(&case.cfg, &case.files, Mode::Ticking) {
        Ok(s) => s,
        Err(_) => return RunOut::skip("parser-rejected"),
    };
    st.run_ops(&case.ops);
    st.gap(400);
    st.finish();
    let outs = st.trace.outs.clone();
    let mut o = RunOut::pass();
    o.sim_ms = st.trace.sim_ms;
    o.count("pop.queued-second", 1);
    let mut sig = fnv(0, case.cfg.as_bytes());
    for op in &case.ops {
        sig = fnv(sig, op.short().as_bytes());
    }
    o.sig = sig;
    if st.probes.max_extra_waiting > 0 {
        o.count("probe.two-tap-hold-decisions-pending-at-once", 1);
    }
    let n = |k: &str| outs.iter().filter(|e| e.kind == OutKind::Press && e.key == k).count();
    o.nontrivial = n("P") + n("Q") > 0;
    let d = st.down_set();
    if !d.is_empty() {
        o.set_fail("C05:stuck-after-release", format!("keys still down at the end: {:?}: {}", d.keys, outs_short(&outs)), vec![]);
    }
    if (n("X") + n("Y"), n("P") + n("Q")) != (1, 1) && !o.failed() {
        o.set_fail("C05:not-exactly-one-outcome", format!("first tap-hold {} outcomes, second tap-hold {} outcomes (expected 1 each): {}", n("X") + n("Y"), n("P") + n("Q"), outs_short(&outs)), vec![]);
    }
    let (h2, hd) = (case.param_u64("h2").unwrap_or(0), case.param_u64("hd").unwrap_or(0));
    if !o.failed() {
        if hd + 3 < h2 && n("P") != 1 {
            o.set_fail("C05:queued-tap-hold-released-early-not-tap", format!("the second tap-hold key was held {hd} ms, hold timeout {h2}: expected its tap action: {}", outs_short(&outs)), vec![]);
        } else if hd > h2 + 3 && n("Q") != 1 {
            o.set_fail("C05:queued-tap-hold-held-long-not-hold", format!("the second tap-hold key was held {hd} ms, hold timeout {h2}: expected its hold action: {}", outs_short(&outs)), vec![]);
        }
    }
    if want_sample {
        o.sample = Some(sample_json(case, &outs, serde_json::json!({"pop": "queued-second"})));
    }
    o
}

impl Prop for C05 {
    fn id(&self) -> &'static str {
        "C05"
    }
    fn rule_text(&self) -> String {
        "case = one tap-hold key (all 7 variants; tap / hold / timeout actions are three distinct marker keys) + two other keys (plain; one of them optionally a mouse-button key, i.e. a custom action only), H in {1,2,5,50,200}, tap-repress window in {0,H,2H}, concurrent-tap-hold on/off, rapid-event-delay in {0,5}; schedules of <= 8 events with gaps from the boundary grid {0,1,H-1,H,H+1,...}. Populations: solo (exact tick), inter (one tap-hold press from a drained engine interleaved with other keys: exact decision + tick from a reference function, buffered keys in order), repress, random (two tap-hold keys: exclusivity + no loss/duplication), queued-second (a second tap-hold key pressed while the first is undecided: its outcome depends on its own hold time only), second-pending (a chords-v2 chord whose action is a tap-hold activates while a physical tap-hold is undecided, then a plain key: one outcome each, the plain key output after both decisions). non-trivial = a tap-hold decision was observed; distinct = (variant,H,concurrent,delay) x schedule signature hash (the fraction of the boundary grid reached is reported under grid_cells).".into()
    }
    fn runs(&self, tier: Tier) -> u64 {
        match tier {
            Tier::Quick => 1_500_000,
            Tier::Thorough => 60_000_000,
        }
    }
    fn gen(&self, seed: u64, _tier: Tier) -> Case {
        let mut r = Rng::new(seed);
        if r.chance(20) {
            // 'vk-collide' population: while a tap-hold-release-keys / tap-hold-except-keys key is
            // undecided a macro taps a virtual key whose index equals the key code of a listed key.
            // Virtual keys live in another row: that is not the listed key being pressed.
            let v = *r.pick(&["tap-hold-release-keys", "tap-hold-except-keys"]);
            let h = 200u64;
            let mut case = Case { prop: "C05".into(), seed, ..Default::default() };
            let idx = oscode_of("b");
            case.cfg = format!(
                "(defsrc a b c)\n(defvirtualkeys {})\n(deflayer l0 ({v} 0 {h} x y (b)) 1 (macro {} (on-press tap-vkey v{idx})))\n",
                (0..=idx).map(|i| format!("v{i} XX")).collect::<Vec<_>>().join(" "),
                r.range(20, 60)
            );
            let (a, c) = (oscode_of("a"), oscode_of("c"));
            case.ops = vec![Op::Gap(2), Op::Press(c), Op::Gap(3), Op::Release(c), Op::Gap(r.range(2, 10) as u32), Op::Press(a), Op::Gap((h + 100) as u32), Op::Release(a), Op::Gap(300)];
            case.set("pop", "vk-collide");
            case.set("min_ops", 0);
            case.set("min_cfg", 0);
            case.set("min_gaps", 0);
            return case;
        }
        if r.chance(40) {
            // 'queued-second' population: a second tap-hold key is pressed (and possibly released)
            // while the first one is still undecided, so its press waits in the queue. How long
            // it waited must not change its own outcome: tap iff it was released before its hold
            // timeout had elapsed since its press.
            let h1 = *r.pick(&[60u64, 200]);
            let h2 = *r.pick(&[30u64, 100, 250]);
            let v1 = *r.pick(&["tap-hold", "tap-hold", "tap-hold-release", "tap-hold-press"]);
            let v2 = *r.pick(&["tap-hold", "tap-hold-release", "tap-hold-press"]);
            let concurrent = r.chance(600);
            let mut case = Case { prop: "C05".into(), seed, ..Default::default() };
            case.cfg = format!(
                "(defcfg concurrent-tap-hold {})\n(defsrc a d c)\n(deflayer l0 ({v1} 0 {h1} x y) ({v2} 0 {h2} p q) 2)\n",
                if concurrent { "yes" } else { "no" }
            );
            let (a, d) = (oscode_of("a"), oscode_of("d"));
            let g1 = r.range(1, h1 + 20);
            let hd = *r.pick(&[1u64, h2 / 2, h2 - 10, h2 - 4, h2 + 4, h2 + 10, 2 * h2]);
            let mut ar = r.range(5, h1 + h2 + 100);
            while ar == g1 || ar == g1 + hd {
                ar += 1;
            }
            let mut evs = vec![(0u64, Op::Press(a)), (g1, Op::Press(d)), (g1 + hd, Op::Release(d)), (ar, Op::Release(a))];
            // a plain key tapped after the second tap-hold key is up again (possibly while the first
            // decision is still pending): it came too late to count as "another key pressed" for it
            if r.chance(400) {
                let cp = g1 + hd + r.range(1, 10);
                if cp != ar && cp + 5 != ar {
                    evs.push((cp, Op::Press(oscode_of("c"))));
                    evs.push((cp + 5, Op::Release(oscode_of("c"))));
                }
            }
            evs.sort_by_key(|e| e.0);
            let mut ops = vec![];
            let mut t = 0;
            for (at, op) in evs {
                if at > t {
                    ops.push(Op::Gap((at - t) as u32));
                    t = at;
                }
                ops.push(op);
            }
            ops.push(Op::Gap(700));
            case.ops = ops;
            case.set("pop", "queued-second");
            case.set("h2", h2);
            case.set("hd", hd);
            case.set("min_ops", 0);
            case.set("min_cfg", 0);
            case.set("min_gaps", 0);
            return case;
        }
        if r.chance(60) {
            // 'second-pending' population: while a physical tap-hold key is undecided a chords-v2
            // chord whose action is another tap-hold activates (a second decision pending at the
            // same time), then a plain key is typed. Whatever is decided first, the plain key must
            // not come out before both decisions, and the outputs keep the press order.
            let h = *r.pick(&[60u64, 200]);
            let h2 = *r.pick(&[60u64, 200, 300]);
            let v1 = *r.pick(&["tap-hold", "tap-hold-release", "tap-hold-press"]);
            let v2 = *r.pick(&["tap-hold", "tap-hold-release", "tap-dance"]);
            let mut case = Case { prop: "C05".into(), seed, ..Default::default() };
            // (the second pending decision may also be a tap-dance: it must not take the place of
            // the tap-hold decision either)
            let chord_action = if v2 == "tap-dance" { format!("(tap-dance {h2} (p q))") } else { format!("({v2} 0 {h2} p q)") };
            case.cfg = format!(
                "(defcfg concurrent-tap-hold yes)\n(defsrc a j k b)\n(deflayer l0 ({v1} 0 {h} x y) j k 1)\n(defchordsv2 (j k) {chord_action} 50 {} ())\n",
                *r.pick(&["all-released", "first-release"])
            );
            let (a, j, k, b) = (oscode_of("a"), oscode_of("j"), oscode_of("k"), oscode_of("b"));
            let mut ops = vec![Op::Press(a), Op::Gap(r.range(3, 15) as u32), Op::Press(j)];
            if r.chance(500) {
                ops.push(Op::Gap(r.range(1, 5) as u32));
            }
            ops.push(Op::Press(k));
            ops.push(Op::Gap(r.range(5, 25) as u32));
            ops.push(Op::Press(b));
            ops.push(Op::Gap(r.range(3, 20) as u32));
            // releases in a random order, some before and some after the hold times
            let mut rel = vec![a, j, k, b];
            r.shuffle(&mut rel);
            for key in rel {
                ops.push(Op::Release(key));
                ops.push(Op::Gap(*r.pick(&[2u32, 5, 20, 150, 400])));
            }
            ops.push(Op::Gap(700));
            case.ops = ops;
            case.set("pop", "second-pending");
            case.set("min_ops", 0);
            case.set("min_cfg", 0);
            case.set("min_gaps", 0);
            return case;
        }
        let variant = *r.pick(VARIANTS);
        let h = *r.pick(&[1u64, 2, 5, 50, 200]);
        let w = *r.pick(&[0, 0, h, 2 * h]);
        let concurrent = r.chance(500);
        let red = *r.pick(&[0u64, 5]);
        let list: Vec<&str> = match r.below(3) {
            0 => vec![],
            1 => vec!["b"],
            _ => vec!["b", "c"],
        };
        let pop = *r.pick(&["solo", "inter", "inter", "inter", "repress", "random"]);
        // the re-press population needs a first press that is unambiguously a tap
        let h = if pop == "repress" && h < 5 { 5 } else { h };
        let mut case = Case { prop: "C05".into(), seed, ..Default::default() };
        let a_act = th_action(variant, if pop == "repress" { (2 * h).max(40) } else { w }, h, "x", "y", "z", &list);
        let d_act = if pop == "random" { th_action(*r.pick(VARIANTS), 0, *r.pick(&[1u64, 2, 5, 50]), "p", "q", "r", &list) } else { "3".to_string() };
        // the second other key is either a plain key or a key whose action is a custom action only
        // (mouse button): it is buffered, counted as "another key" and replayed like any key
        let c_custom = r.chance(250);
        // re-press population: a different key may be tapped between the tap and the re-press; whatever
        // its action is (also one that outputs nothing), the re-press is then not "rapid press + release
        // + press of a key" and gets a fresh decision
        let between = if pop == "repress" { *r.pick(&["", "", "2", "XX", "(macro Digit2)", "(release-key lctl)", "(macro-repeat Digit2 5)", "(switch ((input real d)) 2 break)"]) } else { "" };
        case.cfg = format!(
            "(defcfg concurrent-tap-hold {} rapid-event-delay {red})\n(defsrc a b c d)\n(deflayer l0 {a_act} 1 {} {d_act})\n",
            if concurrent { "yes" } else { "no" },
            if !between.is_empty() { between } else if c_custom { "mlft" } else { "2" }
        );
        case.set("between", between);
        case.set("c_custom", c_custom as u8);
        case.set("variant", variant);
        case.set("h", h);
        case.set("w", if pop == "repress" { (2 * h).max(40) } else { w });
        case.set("concurrent", concurrent as u8);
        case.set("red", red);
        case.set("list", list.join(","));
        case.set("pop", pop);
        if pop != "random" {
            case.set("min_ops", 0);
            case.set("min_cfg", 0);
        }
        if pop == "repress" {
            // the expected outcome depends on the gaps (window, hold time)
            case.set("min_gaps", 0);
        }
        let (a, b, c, d) = (oscode_of("a"), oscode_of("b"), oscode_of("c"), oscode_of("d"));
        let grid = |r: &mut Rng| -> u32 {
            let g = *r.pick(&[0u64, 1, 1, 2, h.saturating_sub(2), h.saturating_sub(1), h, h + 1, h + 2, 3, 7]);
            g as u32
        };
        let settle = (h + 60) as u32;
        match pop {
            "solo" => {
                let g = grid(&mut r);
                case.ops = vec![Op::Press(a)];
                if g > 0 {
                    case.ops.push(Op::Gap(g));
                }
                case.ops.push(Op::Release(a));
                case.ops.push(Op::Gap(settle + h as u32));
            }
            "inter" => {
                // a pressed from a drained engine, then up to 6 more events incl. a's release
                case.ops = vec![Op::Press(a)];
                let mut down: Vec<u16> = vec![a];
                let n = r.range(1, 6);
                // optionally a plain key is already down before a
                if r.chance(200) {
                    case.ops.insert(0, Op::Gap(30));
                    case.ops.insert(0, Op::Press(b));
                    down.push(b);
                }
                for _ in 0..n {
                    let g = grid(&mut r);
                    if g > 0 {
                        case.ops.push(Op::Gap(g));
                    }
                    let can_press: Vec<u16> = [b, c].iter().copied().filter(|k| !down.contains(k)).collect();
                    if !can_press.is_empty() && r.chance(500) {
                        let k = *r.pick(&can_press);
                        down.push(k);
                        case.ops.push(Op::Press(k));
                    } else {
                        let idx = r.below(down.len() as u64) as usize;
                        let k = down.remove(idx);
                        case.ops.push(Op::Release(k));
                        if down.is_empty() {
                            break;
                        }
                    }
                }
                case.ops.push(Op::Gap(settle + 2 * h as u32));
                for k in down {
                    case.ops.push(Op::Release(k));
                    case.ops.push(Op::Gap(1));
                }
                case.ops.push(Op::Gap(settle));
            }
            "repress" => {
                let wv = (2 * h).max(40);
                let g1 = r.range(0, h.saturating_sub(2).min(3));
                let inside = r.chance(500);
                let t2 = if inside { r.range(10, wv.saturating_sub(25).max(10)) } else { wv + 15 + r.range(0, 20) };
                case.set("inside", inside as u8);
                case.ops = vec![Op::Press(a)];
                if g1 > 0 {
                    case.ops.push(Op::Gap(g1 as u32));
                }
                case.ops.push(Op::Release(a));
                if between.is_empty() {
                    case.ops.push(Op::Gap(t2 as u32));
                } else {
                    let t2a = r.range(2, t2 - 6);
                    case.ops.push(Op::Gap(t2a as u32));
                    case.ops.push(Op::Press(c));
                    case.ops.push(Op::Gap(2));
                    case.ops.push(Op::Release(c));
                    case.ops.push(Op::Gap((t2 - t2a - 2) as u32));
                }
                case.ops.push(Op::Press(a));
                case.ops.push(Op::Gap((h + wv + 40) as u32));
                case.ops.push(Op::Release(a));
                case.ops.push(Op::Gap(settle));
            }
            _ => {
                let ho = HistOpts {
                    keys: vec![a, b, c, d],
                    max_events: 8,
                    consistent: true,
                    timeouts: vec![h, h, 5],
                    long_gap_permille: 0,
                    ..Default::default()
                };
                case.ops = gen_history(&mut r, &ho);
                case.ops.push(Op::Gap(settle + 200));
            }
        }
        case
    }

    fn check(&self, case: &Case, want_sample: bool) -> RunOut {
        if case.param("pop") == Some("second-pending") {
            return check_second_pending(case, want_sample);
        }
        if case.param("pop") == Some("queued-second") {
            return check_queued_second(case, want_sample);
        }
        if case.param("pop") == Some("vk-collide") {
            let mut st = match Stepper::new_filtered(&case.cfg, &case.files, Mode::Ticking) {
                Ok(s) => s,
                Err(_) => return RunOut::skip("parser-rejected"),
            };
            st.run_ops(&case.ops);
            st.gap(300);
            st.finish();
            let outs = st.trace.outs.clone();
            let mut o = RunOut::pass();
            o.sim_ms = st.trace.sim_ms;
            o.count("pop.vk-collide", 1);
            o.sig = fnv(fnv(0, case.cfg.as_bytes()), ops_short(&case.ops).as_bytes());
            let n = |k: &str| outs.iter().filter(|e| e.kind == OutKind::Press && e.key == k).count();
            o.nontrivial = n("X") + n("Y") > 0;
            if !st.down_set().is_empty() {
                o.set_fail("C05:stuck-after-release", format!("keys still down at the end: {}", outs_short(&outs)), vec![]);
            } else if (n("X"), n("Y")) != (0, 1) {
                // no physical key other than the tap-hold key was pressed while it was held (300 ms):
                // hold (tap-hold-except-keys: at the release)
                o.set_fail("C05:virtual-key-taken-for-listed-key", format!("held for 300 ms with no other physical key pressed: expected the hold action once, got {} tap + {} hold: {}", n("X"), n("Y"), outs_short(&outs)), vec![]);
            }
            if want_sample {
                o.sample = Some(sample_json(case, &outs, serde_json::json!({"pop": "vk-collide"})));
            }
            return o;
        }
        if !history_consistent(&case.ops) {
            return RunOut::skip("history-not-consistent");
        }
        let mut st = match Stepper::new_filtered(&case.cfg, &case.files, Mode::Ticking) {
            Ok(s) => s,
            Err(_) => return RunOut::skip("parser-rejected"),
        };
        st.run_ops(&case.ops);
        st.gap(300);
        st.finish();
        let mut outs = st.trace.outs.clone();
        if case.param_flag("c_custom") {
            // the mouse button of key c plays the role of its marker
            for e in outs.iter_mut() {
                if e.key == "Left" && e.kind == OutKind::MouseDown {
                    e.kind = OutKind::Press;
                    e.key = "Kb2".into();
                } else if e.key == "Left" && e.kind == OutKind::MouseUp {
                    e.kind = OutKind::Release;
                    e.key = "Kb2".into();
                }
            }
        }
        let mut o = RunOut::pass();
        o.sim_ms = st.trace.sim_ms;
        let variant = case.param("variant").unwrap_or("tap-hold").to_string();
        let h = case.param_u64("h").unwrap_or(5);
        let concurrent = case.param_u64("concurrent").unwrap_or(0) == 1;
        let pop = case.param("pop").unwrap_or("random").to_string();
        let list_s = case.param("list").unwrap_or("").to_string();
        let list: Vec<&str> = list_s.split(',').filter(|s| !s.is_empty()).collect();
        o.count(&format!("pop.{pop}"), 1);
        o.count(&format!("variant.{variant}"), 1);
        let presses = |k: &str| outs.iter().filter(|e| e.kind == OutKind::Press && e.key == k).count();
        let name_of = |c: u16| -> &'static str {
            if c == oscode_of("a") {
                "a"
            } else if c == oscode_of("b") {
                "b"
            } else if c == oscode_of("c") {
                "c"
            } else {
                "d"
            }
        };
        let marker_of = |k: &str| match k {
            "b" => "Kb1",
            "c" => "Kb2",
            "d" => "Kb3",
            _ => "?",
        };
        // ---- end state: nothing down
        let d = st.down_set();
        if !d.is_empty() {
            o.set_fail("C05:stuck-after-release", format!("keys still down at the end: {:?}", d.keys), vec![]);
        }
        // ---- (i) exclusivity + (iv) no loss / duplication, all populations
        let n_a = case.ops.iter().filter(|op| matches!(op, Op::Press(c) if *c == oscode_of("a"))).count();
        if (pop == "repress" && n_a != 2) || (pop == "solo" && n_a != 1) {
            return RunOut::skip("history-shape-not-of-this-population");
        }
        let n_markers = presses("X") + presses("Y") + presses("Z");
        if n_markers != n_a {
            o.set_fail(
                "C05:not-exactly-one-outcome",
                format!("{n_a} presses of the tap-hold key produced {} tap + {} hold + {} timeout marker presses: {}", presses("X"), presses("Y"), presses("Z"), outs_short(&outs)),
                vec![],
            );
        }
        if pop == "random" {
            let n_d = case.ops.iter().filter(|op| matches!(op, Op::Press(c) if *c == oscode_of("d"))).count();
            let n2 = presses("P") + presses("Q") + presses("R");
            if n2 != n_d {
                o.set_fail("C05:not-exactly-one-outcome", format!("second tap-hold key: {n_d} presses produced {n2} marker presses: {}", outs_short(&outs)), vec![]);
            }
        }
        // the between-key of the re-press population may be a key without (exactly one) output
        let c_unjudged = !matches!(case.param("between").unwrap_or(""), "" | "2" | "(macro Digit2)");
        for (k, m) in [("b", "Kb1"), ("c", "Kb2")] {
            if k == "c" && c_unjudged {
                continue;
            }
            let n_in = case.ops.iter().filter(|op| matches!(op, Op::Press(c) if *c == oscode_of(k))).count();
            if presses(m) != n_in {
                o.set_fail("C05:buffered-key-lost-or-duplicated", format!("plain key {k}: {n_in} presses in, {} presses of {m} out: {}", presses(m), outs_short(&outs)), vec![]);
            }
        }
        // plain keys come out in arrival order
        {
            let in_order: Vec<&str> = case
                .ops
                .iter()
                .filter_map(|op| match op {
                    Op::Press(c) if name_of(*c) == "b" || (name_of(*c) == "c" && !c_unjudged) => Some(marker_of(name_of(*c))),
                    _ => None,
                })
                .collect();
            let out_order: Vec<&str> = outs.iter().filter(|e| e.kind == OutKind::Press && (e.key == "Kb1" || (e.key == "Kb2" && !c_unjudged))).map(|e| e.key.as_str()).collect();
            if in_order != out_order && !o.failed() {
                o.set_fail("C05:buffered-keys-reordered", format!("plain keys pressed in order {in_order:?} came out as {out_order:?}"), vec![]);
            }
        }
        // ---- exact decision + tick for solo / inter
        let mut decided = n_markers > 0;
        if (pop == "solo" || pop == "inter") && !o.failed() {
            // arrival times relative to a's press
            let mut t: u64 = 0;
            let mut t_a: Option<u64> = None;
            let mut evs: Vec<(u64, bool, &str)> = vec![];
            let mut pre_gap_ok = true;
            for op in &case.ops {
                match op {
                    Op::Gap(n) => t += *n as u64,
                    Op::Press(c) | Op::Release(c) => {
                        let is_press = matches!(op, Op::Press(_));
                        let k = name_of(*c);
                        if k == "a" && is_press && t_a.is_none() {
                            t_a = Some(t);
                        } else if let Some(ta) = t_a {
                            evs.push((t - ta, is_press, k));
                        } else if t < 30 && !is_press {
                            pre_gap_ok = false;
                        }
                    }
                    _ => {}
                }
            }
            // precondition: engine drained when a is pressed (anything before it is >= 30 ms old)
            let pre_events_recent = case.ops.iter().take_while(|op| !matches!(op, Op::Press(c) if *c == oscode_of("a"))).any(|op| op.is_input())
                && {
                    // time between last pre-event and a
                    let mut since = 0u64;
                    for op in case.ops.iter().take_while(|op| !matches!(op, Op::Press(c) if *c == oscode_of("a"))) {
                        match op {
                            Op::Gap(n) => since += *n as u64,
                            _ => since = 0,
                        }
                    }
                    since < 25
                };
            if let (Some(ta), false, true) = (t_a, pre_events_recent, pre_gap_ok) {
                let horizon = 3 * h + 400;
                if let Some((dec, k)) = reference_decision(&variant, h, concurrent, &list, &evs, horizon) {
                    decided = true;
                    let has_to = variant.ends_with("-timeout");
                    let marker = match dec {
                        Decision::Tap => "X",
                        Decision::Hold => "Y",
                        Decision::Timeout => {
                            if has_to {
                                "Z"
                            } else {
                                "Y"
                            }
                        }
                    };
                    let want_t = ta + k;
                    let first = outs.iter().find(|e| e.kind == OutKind::Press && (e.key == "X" || e.key == "Y" || e.key == "Z"));
                    o.count(&format!("decision.{dec:?}"), 1);
                    match first {
                        None => o.set_fail("C05:no-decision", format!("expected {marker} at tick {want_t}, nothing came out: {}", outs_short(&outs)), vec![]),
                        Some(e) => {
                            if e.key != marker {
                                o.set_fail(
                                    "C05:wrong-outcome",
                                    format!("variant {variant} H={h} concurrent={concurrent} events(after press)={evs:?}: expected {dec:?} ({marker}) at tick {want_t}, got {} at {}: {}", e.key, e.t, outs_short(&outs)),
                                    vec![],
                                );
                            } else if e.t != want_t {
                                o.set_fail(
                                    "C05:wrong-decision-tick",
                                    format!("variant {variant} H={h} concurrent={concurrent} events(after press)={evs:?}: {marker} expected in tick {want_t}, came in tick {}: {}", e.t, outs_short(&outs)),
                                    vec![],
                                );
                            }
                            // keys pressed while undecided produce no output before the decision
                            if let Some(early) = outs.iter().find(|x| x.t < e.t && x.kind == OutKind::Press && (x.key == "Kb1" || x.key == "Kb2") && x.t > ta) {
                                o.set_fail("C05:output-before-decision", format!("{} came out at {} before the decision at {}: {}", early.key, early.t, e.t, outs_short(&outs)), vec![]);
                            }
                        }
                    }
                }
            } else {
                o.count("precondition.engine-not-drained", 1);
            }
        }
        if pop == "repress" && !o.failed() {
            let inside = case.param_u64("inside").unwrap_or(0) == 1 && case.param("between").unwrap_or("").is_empty();
            // first press: tap. second press: inside the window -> tap marker held until release
            let xs: Vec<&OutEv> = outs.iter().filter(|e| e.key == "X").collect();
            if inside {
                let ok = presses("X") == 2 && presses("Y") + presses("Z") == 0 && {
                    // second X press lasts until the final release (long hold)
                    let p2 = xs.iter().filter(|e| e.kind == OutKind::Press).nth(1).map(|e| e.t).unwrap_or(0);
                    let r2 = xs.iter().filter(|e| e.kind == OutKind::Release).nth(1).map(|e| e.t).unwrap_or(0);
                    r2 > p2 + h
                };
                if !ok {
                    o.set_fail("C05:repress-inside-window-not-tap-held", format!("W={} H={h}: expected the tap marker held by the re-press: {}", case.param("w").unwrap_or("?"), outs_short(&outs)), vec![]);
                }
            } else if presses("X") != 1 || presses("Y") + presses("Z") != 1 {
                o.set_fail("C05:repress-outside-window-not-normal", format!("W={} H={h}: expected tap then hold: {}", case.param("w").unwrap_or("?"), outs_short(&outs)), vec![]);
            }
        }
        o.nontrivial = decided;
        // distinct: parameter cell x schedule
        let mut sig = fnv(0, case.cfg.as_bytes());
        for op in &case.ops {
            sig = fnv(sig, op.short().as_bytes());
        }
        o.sig = sig;
        if want_sample {
            o.sample = Some(sample_json(case, &outs, json!({"variant": variant, "H": h, "concurrent": concurrent, "pop": pop})));
        }
        o
    }
    fn assumptions(&self) -> Vec<String> {
        vec![
            "tick conventions of the pinned tree (DESIGN.md D5): a press arriving at a is dequeued in tick a+1; non-concurrent hold/timeout fires in tick a+1+H, concurrent in tick a+H; a release is seen in the tick after its arrival and is a tap iff it arrived < H (H-1 when concurrent) after the press".into(),
            "exact-tick clause only for a tap-hold press into a drained engine (nothing arrived in the 25 ms before it)".into(),
            "events that arrive within the same millisecond are evaluated together but in arrival order: another key's press (or press + release) counts for the early triggers only when it arrived before the tap-hold key's own release".into(),
        ]
    }
}
