//! C06 — one-shot applies to exactly the next key, or expires; it never lingers.

use super::common::*;
use super::*;
use crate::exec_a::*;
use crate::gen::*;
use crate::ops::*;
use crate::trace::*;
use serde_json::json;

pub struct C06;

const VARIANTS: &[&str] = &["one-shot-press", "one-shot-release", "one-shot-press-pcancel", "one-shot-release-pcancel", "one-shot"];

fn is_press_variant(v: &str) -> bool {
    v == "one-shot" || v.starts_with("one-shot-press")
}
fn is_pcancel(v: &str) -> bool {
    v.ends_with("pcancel")
}

impl Prop for C06 {
    fn id(&self) -> &'static str {
        "C06"
    }
    fn rule_text(&self) -> String {
        "case = 1-3 one-shot keys (all end variants; payload key / output chord / layer-while-held) + 2 plain keys + 1 custom-action key (mouse button / message / unicode) on 2 layers, T in {1,2,10,100}, rapid-event-delay in {0,1,5}; structured schedules with gaps from {0,1,2,T-1,T,T+1,...}: expire (exact tick), next-key (press / release variants), held, stacked, re-press (pcancel vs restart; pcancel: also the older of two combined one-shots pressed again), overflow (17-20 stacked one-shots). non-trivial = the one-shot payload went down; distinct = config x schedule hash.".into()
    }
    fn runs(&self, tier: Tier) -> u64 {
        match tier {
            Tier::Quick => 1_000_000,
            Tier::Thorough => 40_000_000,
        }
    }
    fn gen(&self, seed: u64, _tier: Tier) -> Case {
        let mut r = Rng::new(seed);
        let v = *r.pick(VARIANTS);
        let t = *r.pick(&[1u64, 2, 10, 100]);
        let red = *r.pick(&[0u64, 1, 5]);
        let payload = *r.pick(&["key", "key", "chord", "layer"]);
        let pop = *r.pick(&["expire", "next", "next", "next", "held", "stack", "repress", "overflow", "episodes", "episodes"]);
        let (t, payload) = if pop == "episodes" { (*r.pick(&[20u64, 100]), "key") } else { (t, payload) };
        let t = if (pop == "stack" || pop == "repress") && t < 10 { 10 } else { t };
        let mut case = Case { prop: "C06".into(), seed, ..Default::default() };
        // payload: key -> lsft ; chord -> C-lsft (LCtrl+LShift) ; layer -> layer-while-held l1 (b => 3, c => 4)
        let p = match payload {
            "key" => "lsft",
            "chord" => "C-lsft",
            _ => "(layer-while-held l1)",
        };
        let (a, a2, b, c) = (oscode_of("a"), oscode_of("d"), oscode_of("b"), oscode_of("c"));
        if pop == "overflow" {
            // 20 one-shot keys
            let names: Vec<String> = (0..20).map(|i| LETTERS[i].to_string()).filter(|n| n != "b" && n != "c").collect();
            let mods = ["lsft", "lctl", "lalt", "lmet", "rsft", "rctl", "ralt", "rmet"];
            let acts: Vec<String> = names.iter().enumerate().map(|(i, _)| format!("({v} {} {})", 50 + t, mods[i % 8])).collect();
            case.cfg = format!("(defcfg rapid-event-delay {red})\n(defsrc {} b c)\n(deflayer l0 {} 1 2)\n", names.join(" "), acts.join(" "));
            let mut ops = vec![];
            let n = r.range(17, names.len() as u64) as usize;
            for name in names.iter().take(n) {
                let k = oscode_of(name);
                ops.push(Op::Press(k));
                ops.push(Op::Gap(r.range(0, 2) as u32));
                ops.push(Op::Release(k));
                ops.push(Op::Gap(r.range(0, 2) as u32));
            }
            ops.push(Op::Press(b));
            ops.push(Op::Gap(3));
            ops.push(Op::Release(b));
            ops.push(Op::Gap(400));
            case.ops = ops;
        } else {
            let p2 = "lalt";
            // e: a key whose action is a custom action only (no keycode of its own): it is a
            // following key like any other
            let custom = *r.pick(&["mlft", "(push-msg hi)", "(unicode x)", "mrgt"]);
            // g: (one-shot-pause-processing N), tapped only while no one-shot is active and more than
            // N ms before the next one: a pause "for a time" that is over must change nothing
            let pause_n = *r.pick(&[20u64, 100]);
            // the second one-shot key: same variant and timeout, except in the episodes population,
            // where it is any variant with a much longer timeout (what one episode leaves behind of
            // its timeout must not carry over into a later one-shot with a shorter one)
            let (v2, t2) = if pop == "episodes" { (*r.pick(VARIANTS), 4 * t + 200) } else { (v, t) };
            case.cfg = format!(
                "(defcfg rapid-event-delay {red})\n(defsrc a b c d e f g)\n(deflayer l0 ({v} {t} {p}) 1 2 ({v2} {t2} {p2}) {custom} 5 (one-shot-pause-processing {pause_n}))\n(deflayer l1 _ 3 4 _ _ _ _)\n"
            );
            let g_key = oscode_of("g");
            let e_key = oscode_of("e");
            let f_key = oscode_of("f");
            let grid = |r: &mut Rng| -> u32 { *r.pick(&[0u64, 1, 1, 2, 3, t.saturating_sub(1), t, t + 1, red, red + 1, 7]) as u32 };
            let settle = (t + 40) as u32;
            let mut ops = vec![];
            match pop {
                "expire" => {
                    let g = r.range(0, t.saturating_sub(1).min(5));
                    ops.push(Op::Press(a));
                    if g > 0 {
                        ops.push(Op::Gap(g as u32));
                    }
                    ops.push(Op::Release(a));
                    ops.push(Op::Gap(settle + t as u32));
                }
                "next" => {
                    ops.push(Op::Press(a));
                    let g = grid(&mut r).min(t.saturating_sub(1) as u32);
                    if g > 0 {
                        ops.push(Op::Gap(g));
                    }
                    ops.push(Op::Release(a));
                    let g2 = grid(&mut r);
                    if g2 > 0 {
                        ops.push(Op::Gap(g2));
                    }
                    // b press, optional c press, releases in random order
                    ops.push(Op::Press(b));
                    let mut down = vec![b];
                    let g3 = grid(&mut r);
                    if g3 > 0 {
                        ops.push(Op::Gap(g3));
                    }
                    if r.chance(600) {
                        ops.push(Op::Press(c));
                        down.push(c);
                        let g4 = grid(&mut r);
                        if g4 > 0 {
                            ops.push(Op::Gap(g4));
                        }
                    }
                    r.shuffle(&mut down);
                    let second_after = r.chance(500);
                    for k in down.clone() {
                        ops.push(Op::Release(k));
                        let g5 = grid(&mut r);
                        if g5 > 0 {
                            ops.push(Op::Gap(g5));
                        }
                    }
                    if second_after {
                        // a key pressed after everything was released: must be unmodified
                        ops.push(Op::Gap(2));
                        ops.push(Op::Press(c));
                        ops.push(Op::Gap(3));
                        ops.push(Op::Release(c));
                    }
                    ops.push(Op::Gap(settle));
                }
                "episodes" => {
                    // several one-shot episodes on the same instance, with keys that are already
                    // held when the one-shot key is tapped and one-shots that expire while a key is
                    // held: state left behind by one episode must not leak into the next
                    let n = r.range(2, 4);
                    let mut must_mod: Vec<usize> = vec![];
                    let mut must_not: Vec<usize> = vec![];
                    let after_end = (red + 4) as u32;
                    for _ in 0..n {
                        if r.chance(250) {
                            // (the gap after the pause key is part of the expectation)
                            case.set("min_gaps", 0);
                            ops.push(Op::Press(g_key));
                            ops.push(Op::Gap(2));
                            ops.push(Op::Release(g_key));
                            ops.push(Op::Gap((pause_n + 10) as u32));
                        }
                        match r.pick_w(&[30, 30, 25, if is_pcancel(v) { 0 } else { 25 }, 25, 30, 25, 30]) {
                            7 => {
                                // tapped and left alone: it expires after T, the key after that is plain
                                ops.push(Op::Press(a));
                                ops.push(Op::Gap(2));
                                ops.push(Op::Release(a));
                                ops.push(Op::Gap((t + 15) as u32));
                                must_not.push(ops.len());
                                ops.push(Op::Press(c));
                                ops.push(Op::Gap(3));
                                ops.push(Op::Release(c));
                                ops.push(Op::Gap(after_end));
                            }
                            6 => {
                                // an episode of the other one-shot key (long timeout, any variant),
                                // used up by one following key long before its timeout
                                ops.push(Op::Press(a2));
                                ops.push(Op::Gap(2));
                                ops.push(Op::Release(a2));
                                ops.push(Op::Gap(r.range(2, 4) as u32));
                                ops.push(Op::Press(e_key));
                                ops.push(Op::Gap(3));
                                ops.push(Op::Release(e_key));
                                ops.push(Op::Gap(after_end));
                            }
                            5 => {
                                // two overlapping following keys, the later one released first, then a
                                // third key while the first is still held: press variants end at the
                                // first press, release variants at the first release of ANY following key
                                ops.push(Op::Press(a));
                                ops.push(Op::Gap(2));
                                ops.push(Op::Release(a));
                                ops.push(Op::Gap(r.range(2, 4) as u32));
                                must_mod.push(ops.len());
                                ops.push(Op::Press(b));
                                ops.push(Op::Gap(3));
                                if is_press_variant(v) {
                                    must_not.push(ops.len());
                                } else {
                                    must_mod.push(ops.len());
                                }
                                ops.push(Op::Press(c));
                                ops.push(Op::Gap(3));
                                ops.push(Op::Release(c));
                                ops.push(Op::Gap(after_end));
                                must_not.push(ops.len());
                                ops.push(Op::Press(f_key));
                                ops.push(Op::Gap(3));
                                ops.push(Op::Release(f_key));
                                ops.push(Op::Gap(3));
                                ops.push(Op::Release(b));
                                ops.push(Op::Gap(after_end));
                            }
                            4 => {
                                // the first following key is a custom-action key (mouse button,
                                // message, unicode): it uses the one-shot up like any other key, so
                                // the key after it is plain
                                ops.push(Op::Press(a));
                                ops.push(Op::Gap(2));
                                ops.push(Op::Release(a));
                                ops.push(Op::Gap(r.range(2, 4) as u32));
                                ops.push(Op::Press(e_key));
                                ops.push(Op::Gap(3));
                                ops.push(Op::Release(e_key));
                                ops.push(Op::Gap(r.range(2, 4) as u32));
                                must_not.push(ops.len());
                                ops.push(Op::Press(c));
                                ops.push(Op::Gap(3));
                                ops.push(Op::Release(c));
                                ops.push(Op::Gap(after_end));
                            }
                            3 => {
                                // the one-shot key is tapped, then pressed again and HELD while the
                                // one-shot is still active: as long as it is held it acts as the plain
                                // key, so both following keys are modified (the one-shot's own end by
                                // the first of them must not release a key that is physically down)
                                ops.push(Op::Press(a));
                                ops.push(Op::Gap(2));
                                ops.push(Op::Release(a));
                                ops.push(Op::Gap(r.range(2, 5) as u32));
                                ops.push(Op::Press(a));
                                ops.push(Op::Gap(r.range(2, 5) as u32));
                                must_mod.push(ops.len());
                                ops.push(Op::Press(c));
                                ops.push(Op::Gap(3));
                                ops.push(Op::Release(c));
                                ops.push(Op::Gap(after_end + *r.pick(&[0u32, 0, t as u32 + 10])));
                                must_mod.push(ops.len());
                                ops.push(Op::Press(b));
                                ops.push(Op::Gap(3));
                                ops.push(Op::Release(b));
                                ops.push(Op::Gap(3));
                                ops.push(Op::Release(a));
                                ops.push(Op::Gap(after_end));
                            }
                            0 => {
                                // expires while X is held
                                let pre = r.chance(500);
                                if pre {
                                    must_not.push(ops.len());
                                    ops.push(Op::Press(b));
                                    ops.push(Op::Gap(r.range(2, 4) as u32));
                                }
                                ops.push(Op::Press(a));
                                ops.push(Op::Gap(2));
                                ops.push(Op::Release(a));
                                ops.push(Op::Gap(r.range(2, 4) as u32));
                                if !pre {
                                    must_mod.push(ops.len());
                                    ops.push(Op::Press(b));
                                }
                                ops.push(Op::Gap((t + 15) as u32));
                                ops.push(Op::Release(b));
                                ops.push(Op::Gap(after_end));
                            }
                            1 => {
                                // X held before the one-shot key: its release does not count
                                must_not.push(ops.len());
                                ops.push(Op::Press(b));
                                ops.push(Op::Gap(r.range(2, 4) as u32));
                                ops.push(Op::Press(a));
                                ops.push(Op::Gap(2));
                                ops.push(Op::Release(a));
                                ops.push(Op::Gap(2));
                                ops.push(Op::Release(b));
                                ops.push(Op::Gap(r.range(2, 3) as u32));
                                must_mod.push(ops.len());
                                ops.push(Op::Press(c));
                                ops.push(Op::Gap(3));
                                ops.push(Op::Release(c));
                                ops.push(Op::Gap(after_end));
                            }
                            _ => {
                                ops.push(Op::Press(a));
                                ops.push(Op::Gap(2));
                                ops.push(Op::Release(a));
                                ops.push(Op::Gap(r.range(2, 4) as u32));
                                must_mod.push(ops.len());
                                ops.push(Op::Press(c));
                                ops.push(Op::Gap(3));
                                ops.push(Op::Release(c));
                                ops.push(Op::Gap(after_end));
                            }
                        }
                        // a key typed after the episode is plain
                        must_not.push(ops.len());
                        ops.push(Op::Press(b));
                        ops.push(Op::Gap(3));
                        ops.push(Op::Release(b));
                        ops.push(Op::Gap((t + 30) as u32));
                    }
                    case.set("must_mod", must_mod.iter().map(|i| i.to_string()).collect::<Vec<_>>().join(","));
                    case.set("must_not", must_not.iter().map(|i| i.to_string()).collect::<Vec<_>>().join(","));
                }
                "held" => {
                    ops.push(Op::Press(a));
                    let g = grid(&mut r) + *r.pick(&[0u32, t as u32 + 5]);
                    if g > 0 {
                        ops.push(Op::Gap(g));
                    }
                    let with_b = r.chance(600);
                    if with_b {
                        ops.push(Op::Press(b));
                        ops.push(Op::Gap(grid(&mut r) + 1));
                        ops.push(Op::Release(b));
                        ops.push(Op::Gap(grid(&mut r) + 1));
                    }
                    ops.push(Op::Release(a));
                    ops.push(Op::Gap(settle + t as u32));
                }
                "stack" => {
                    ops.push(Op::Press(a));
                    ops.push(Op::Gap(r.range(0, 2) as u32));
                    ops.push(Op::Release(a));
                    let g = grid(&mut r).min(t.saturating_sub(1) as u32);
                    if g > 0 {
                        ops.push(Op::Gap(g));
                    }
                    ops.push(Op::Press(a2));
                    ops.push(Op::Gap(r.range(0, 2) as u32));
                    ops.push(Op::Release(a2));
                    if r.chance(600) {
                        let g2 = grid(&mut r).min(t.saturating_sub(1) as u32);
                        if g2 > 0 {
                            ops.push(Op::Gap(g2));
                        }
                        ops.push(Op::Press(b));
                        ops.push(Op::Gap(3 + red as u32));
                        ops.push(Op::Release(b));
                        case.set("stack_key", 1);
                    }
                    ops.push(Op::Gap(settle + t as u32));
                }
                _ if is_pcancel(v) && payload == "key" && r.chance(400) => {
                    // two combined pcancel one-shots, then the OLDER one is pressed again: any
                    // active one-shot key pressed again ends the whole combination
                    let (first, second) = if r.chance(500) { (a, a2) } else { (a2, a) };
                    // (every event in a millisecond of its own with the queue drained, so that the
                    // activation tick of each payload is its arrival + 1)
                    ops.push(Op::Press(first));
                    ops.push(Op::Gap(2));
                    ops.push(Op::Release(first));
                    ops.push(Op::Gap(r.range(2, 3) as u32));
                    ops.push(Op::Press(second));
                    ops.push(Op::Gap(2));
                    ops.push(Op::Release(second));
                    ops.push(Op::Gap(r.range(2, 3) as u32));
                    case.set("repress_stacked_at", ops.len());
                    ops.push(Op::Press(first));
                    ops.push(Op::Gap(2));
                    ops.push(Op::Release(first));
                    ops.push(Op::Gap((red + 6) as u32));
                    ops.push(Op::Press(b));
                    ops.push(Op::Gap(3));
                    ops.push(Op::Release(b));
                    ops.push(Op::Gap(settle + t as u32));
                }
                _ => {
                    // repress
                    ops.push(Op::Press(a));
                    ops.push(Op::Gap(r.range(0, 1) as u32));
                    ops.push(Op::Release(a));
                    let g = r.range(3, t.saturating_sub(4).max(3)) as u32;
                    ops.push(Op::Gap(g));
                    ops.push(Op::Press(a));
                    ops.push(Op::Gap(r.range(0, 1) as u32));
                    ops.push(Op::Release(a));
                    ops.push(Op::Gap(settle + t as u32));
                }
            }
            case.ops = ops;
        }
        case.set("variant", v);
        case.set("t", t);
        case.set("red", red);
        case.set("payload", payload);
        case.set("pop", pop);
        case.set("min_ops", 0);
        case.set("min_cfg", 0);
        case
    }

    fn check(&self, case: &Case, want_sample: bool) -> RunOut {
        if !history_consistent(&case.ops) {
            return RunOut::skip("history-not-consistent");
        }
        let mut st = match Stepper::new_filtered(&case.cfg, &case.files, Mode::Ticking) {
            Ok(s) => s,
            Err(_) => return RunOut::skip("parser-rejected"),
        };
        st.run_ops(&case.ops);
        st.gap(300);
        st.finish();
        let outs = st.trace.outs.clone();
        let mut o = RunOut::pass();
        o.sim_ms = st.trace.sim_ms;
        probes_into(&mut o, &st.probes, &st.trace);
        let v = case.param("variant").unwrap_or("one-shot").to_string();
        let t = case.param_u64("t").unwrap_or(10);
        let red = case.param_u64("red").unwrap_or(5);
        let payload = case.param("payload").unwrap_or("key").to_string();
        let pop = case.param("pop").unwrap_or("next").to_string();
        o.count(&format!("pop.{pop}"), 1);
        o.count(&format!("variant.{v}"), 1);
        o.count(&format!("payload.{payload}"), 1);
        let mut sig = fnv(0, case.cfg.as_bytes());
        for op in &case.ops {
            sig = fnv(sig, op.short().as_bytes());
        }
        o.sig = sig;
        let d = st.down_set();
        if !d.is_empty() {
            o.set_fail("C06:lingers-at-end", format!("keys still down long after the last input: {:?}: {}", d.keys, outs_short(&outs)), vec![]);
        }
        if pop == "overflow" {
            o.nontrivial = st.probes.max_oneshot_keys >= 16;
            if want_sample {
                o.sample = Some(sample_json(case, &outs, json!({"pop": pop})));
            }
            return o;
        }
        if pop == "episodes" {
            let list = |k: &str| -> Vec<usize> { case.param(k).unwrap_or("").split(',').filter_map(|x| x.parse().ok()).collect() };
            let (must_mod, must_not) = (list("must_mod"), list("must_not"));
            if must_mod.iter().chain(must_not.iter()).any(|i| *i >= case.ops.len() || !matches!(case.ops[*i], Op::Press(_))) {
                return RunOut::skip("history-shape-not-of-this-population");
            }
            let mut shift = false;
            let mut judged = 0;
            for e in &outs {
                if e.key == "LShift" {
                    match e.kind {
                        OutKind::Press => shift = true,
                        OutKind::Release => shift = false,
                        _ => {}
                    }
                }
                if e.kind == OutKind::Press && (e.key == "Kb1" || e.key == "Kb2" || e.key == "Kb5") && e.in_idx >= 0 {
                    let i = e.in_idx as usize;
                    if must_mod.contains(&i) {
                        judged += 1;
                        if !shift && !o.failed() {
                            o.set_fail("C06:first-key-after-one-shot-not-modified", format!("{v} T={t}: {} (input #{i}) is the first key pressed after the one-shot key was tapped, but the payload is not down: ops {} :: {}", e.key, ops_short(&case.ops), outs_short(&outs)), vec![]);
                        }
                    } else if must_not.contains(&i) {
                        judged += 1;
                        if shift && !o.failed() {
                            o.set_fail("C06:key-outside-one-shot-modified", format!("{v} T={t}: {} (input #{i}) was pressed before the one-shot key / after the one-shot ended, but the payload is down: ops {} :: {}", e.key, ops_short(&case.ops), outs_short(&outs)), vec![]);
                        }
                    }
                }
            }
            if judged != must_mod.len() + must_not.len() && !o.failed() {
                o.set_fail("C06:key-lost", format!("{} of {} plain key presses were output: ops {} :: {}", judged, must_mod.len() + must_not.len(), ops_short(&case.ops), outs_short(&outs)), vec![]);
            }
            o.nontrivial = judged > 0;
            if want_sample {
                o.sample = Some(sample_json(case, &outs, json!({"pop": pop})));
            }
            return o;
        }
        // arrival times
        let mut tm = 0u64;
        let mut arr: Vec<(u64, &Op)> = vec![];
        for op in &case.ops {
            match op {
                Op::Gap(n) => tm += *n as u64,
                _ => arr.push((tm, op)),
            }
        }
        let a = oscode_of("a");
        let t_a = arr.iter().find(|(_, op)| matches!(op, Op::Press(c) if *c == a)).map(|x| x.0);
        let Some(t_a) = t_a else { return RunOut::skip("history-shape-not-of-this-population") };
        // the payload marker: for key/chord LShift; for layer the effect is on the plain keys
        let m = "LShift";
        let m_down = |at: u64| -> bool {
            let mut dn = false;
            for e in outs.iter().filter(|e| e.key == m) {
                if e.t > at {
                    break;
                }
                match e.kind {
                    OutKind::Press => dn = true,
                    OutKind::Release => dn = false,
                    _ => {}
                }
            }
            dn
        };
        let first_m_press = outs.iter().find(|e| e.key == m && e.kind == OutKind::Press).map(|e| e.t);
        let last_m_release = outs.iter().filter(|e| e.key == m && e.kind == OutKind::Release).map(|e| e.t).last();
        if payload != "layer" {
            match first_m_press {
                Some(tp) if tp == t_a + 1 => {}
                other => o.set_fail("C06:payload-not-activated-on-press", format!("one-shot key pressed at {t_a}; payload press expected in tick {}, got {other:?}: {}", t_a + 1, outs_short(&outs)), vec![]),
            }
            o.nontrivial = first_m_press.is_some();
        } else {
            o.nontrivial = true;
        }
        let plain_outs: Vec<&OutEv> = outs.iter().filter(|e| e.kind == OutKind::Press && ["Kb1", "Kb2", "Kb3", "Kb4"].contains(&e.key.as_str())).collect();
        match pop.as_str() {
            "expire" => {
                if payload != "layer" && !o.failed() {
                    let want = t_a + 1 + t;
                    if last_m_release != Some(want) {
                        o.set_fail("C06:wrong-expiry-tick", format!("T={t}: payload release expected exactly in tick {want}, got {last_m_release:?}: {}", outs_short(&outs)), vec![]);
                    }
                }
            }
            "next" => {
                let b = oscode_of("b");
                let t_b = arr.iter().find(|(_, op)| matches!(op, Op::Press(c) if *c == b)).map(|x| x.0).unwrap_or(0);
                // did the one-shot expire before b arrived? (timeout counted from activation)
                let expired_before = t_b >= t_a + t;
                // time is counted when events are processed (one queued event per tick): within a
                // margin of the number of events in flight the outcome is not judged
                let margin = 3 + arr.iter().filter(|(tt, _)| *tt <= t_b).count() as u64;
                let boundary = t_b + margin >= t_a + t && t_b <= t_a + t + margin;
                if boundary {
                    o.count("boundary.key-at-expiry", 1);
                }
                if !boundary && !o.failed() {
                    // first key modified iff not expired
                    let first = plain_outs.first().map(|e| e.key.as_str()).unwrap_or("");
                    if payload == "layer" {
                        let want = if expired_before { "Kb1" } else { "Kb3" };
                        if first != want {
                            o.set_fail("C06:first-key-wrong-layer", format!("variant {v} T={t}: first following key expected {want} (one-shot layer {}), got {first}: {}", if expired_before { "expired" } else { "active" }, outs_short(&outs)), vec![]);
                        }
                    } else if let Some(e) = plain_outs.first() {
                        let dn = m_down(e.t) && outs.iter().position(|x| std::ptr::eq(x, *e)).map(|pi| outs[..pi].iter().rev().find(|x| x.key == m).map(|x| x.kind == OutKind::Press).unwrap_or(false)).unwrap_or(false);
                        if dn == expired_before {
                            o.set_fail(
                                "C06:first-key-modifier-state-wrong",
                                format!("variant {v} T={t} red={red}: one-shot at {t_a}, next key at {t_b} ({}): payload {} when the key came out: {}", if expired_before { "after expiry" } else { "before expiry" }, if dn { "down" } else { "up" }, outs_short(&outs)),
                                vec![],
                            );
                        }
                    }
                    // keys that must be unmodified
                    if !expired_before {
                        // press variants: every key after the first; release variants: keys pressed after the first release
                        let mut first_release_t: Option<u64> = None;
                        let mut pressed_after_activation: Vec<u16> = vec![];
                        let mut idx_plain = 0usize;
                        for (tt, op) in arr.iter().filter(|(tt, _)| *tt >= t_a) {
                            match op {
                                Op::Press(c) if *c != a => {
                                    let must_be_clean = if is_press_variant(&v) { idx_plain >= 1 } else { first_release_t.map(|fr| *tt > fr).unwrap_or(false) };
                                    if must_be_clean {
                                        if let Some(e) = plain_outs.get(idx_plain) {
                                            let pi = outs.iter().position(|x| std::ptr::eq(x, *e)).unwrap_or(0);
                                            if payload == "layer" {
                                                if e.key == "Kb3" || e.key == "Kb4" {
                                                    o.set_fail("C06:later-key-still-on-oneshot-layer", format!("variant {v}: key #{} (arrived {tt}) came out as {} although the one-shot had ended: {}", idx_plain + 1, e.key, outs_short(&outs)), vec![]);
                                                }
                                            } else {
                                                let m_state = outs[..pi].iter().rev().find(|x| x.key == m).map(|x| x.kind == OutKind::Press).unwrap_or(false);
                                                if m_state {
                                                    o.set_fail("C06:later-key-still-modified", format!("variant {v} red={red}: key #{} (arrived {tt}) came out while the one-shot payload was still down: {}", idx_plain + 1, outs_short(&outs)), vec![]);
                                                }
                                            }
                                        }
                                    }
                                    pressed_after_activation.push(*c);
                                    idx_plain += 1;
                                }
                                Op::Release(c) if *c != a && pressed_after_activation.contains(c) => {
                                    if first_release_t.is_none() {
                                        first_release_t = Some(*tt);
                                    }
                                }
                                _ => {}
                            }
                        }
                        // the payload goes up soon after the ending event
                        if payload != "layer" && !o.failed() {
                            let end_t = if is_press_variant(&v) { Some(t_b) } else { first_release_t };
                            if let (Some(et), Some(rel)) = (end_t, last_m_release) {
                                let bound = et + 1 + red + 3 + (arr.len() as u64);
                                if rel > bound.max(t_a + 1 + t) {
                                    o.set_fail("C06:payload-released-late", format!("variant {v}: ending event at {et}, payload released at {rel} (> {bound}): {}", outs_short(&outs)), vec![]);
                                }
                            }
                        }
                    }
                }
            }
            "held" => {
                if payload != "layer" && !o.failed() {
                    let t_rel = arr.iter().find(|(_, op)| matches!(op, Op::Release(c) if *c == a)).map(|x| x.0).unwrap_or(0);
                    // payload continuously down from activation until the release arrives
                    let first_rel = outs.iter().find(|e| e.key == m && e.kind == OutKind::Release).map(|e| e.t).unwrap_or(u64::MAX);
                    if first_rel <= t_rel {
                        o.set_fail("C06:held-oneshot-released-early", format!("one-shot key held from {t_a} to {t_rel}, payload released at {first_rel}: {}", outs_short(&outs)), vec![]);
                    }
                }
            }
            "stack" => {
                if payload == "key" && !o.failed() {
                    // both payloads (LShift and LAlt) down when the plain key comes out / restart of the timer
                    let d = oscode_of("d");
                    let t_d = arr.iter().find(|(_, op)| matches!(op, Op::Press(c) if *c == d)).map(|x| x.0).unwrap_or(0);
                    if t_d + 4 < t_a + t {
                        if case.param_flag("stack_key") {
                            if let Some(e) = plain_outs.first() {
                                let pi = outs.iter().position(|x| std::ptr::eq(x, *e)).unwrap_or(0);
                                let st_of = |k: &str| outs[..pi].iter().rev().find(|x| x.key == k).map(|x| x.kind == OutKind::Press).unwrap_or(false);
                                let t_b = arr.iter().find(|(_, op)| matches!(op, Op::Press(c) if *c == oscode_of("b"))).map(|x| x.0).unwrap_or(0);
                                if t_b + 6 < t_d + t && !(st_of("LShift") && st_of("LAlt")) {
                                    o.set_fail("C06:stacked-oneshots-not-combined", format!("both one-shots tapped within T={t}; when the next key came out LShift={} LAlt={}: {}", st_of("LShift"), st_of("LAlt"), outs_short(&outs)), vec![]);
                                }
                            }
                        } else {
                            // timer restarts from the last activation
                            let act = outs.iter().find(|e| e.key == "LAlt" && e.kind == OutKind::Press).map(|e| e.t).unwrap_or(t_d + 1);
                            let want = act + t;
                            let rel_alt = outs.iter().filter(|e| e.key == "LAlt" && e.kind == OutKind::Release).map(|e| e.t).last();
                            if rel_alt != Some(want) || last_m_release != Some(want) {
                                o.set_fail("C06:stacked-timeout-not-restarted", format!("second one-shot at {t_d}, T={t}: both payloads expected to expire in tick {want}; LShift {last_m_release:?} LAlt {rel_alt:?}: {}", outs_short(&outs)), vec![]);
                            }
                        }
                    }
                }
            }
            "repress" if case.param("repress_stacked_at").is_some() => {
                if !o.failed() {
                    let at = case.param_u64("repress_stacked_at").unwrap_or(0) as usize;
                    let mut tm = 0u64;
                    for op in &case.ops[..at.min(case.ops.len())] {
                        if let Op::Gap(n) = op {
                            tm += *n as u64;
                        }
                    }
                    o.count("pop.repress-older-of-two-combined", 1);
                    // T >= 10 here, the re-press comes <= 10 ms after the first tap
                    let bound = tm + 1 + red + 4;
                    let rel_of = |k: &str| outs.iter().filter(|e| e.key == k && e.kind == OutKind::Release).map(|e| e.t).last();
                    for k in ["LShift", "LAlt"] {
                        if rel_of(k).map(|x| x > bound).unwrap_or(true) {
                            o.set_fail("C06:pcancel-did-not-end-on-repress", format!("variant {v}: two one-shots combined, the older one pressed again at {tm}: payload {k} released at {:?} (> {bound}): {}", rel_of(k), outs_short(&outs)), vec![]);
                        }
                    }
                    // the key typed afterwards is plain
                    if let Some(e) = plain_outs.first() {
                        let pi = outs.iter().position(|x| std::ptr::eq(x, *e)).unwrap_or(0);
                        let st_of = |k: &str| outs[..pi].iter().rev().find(|x| x.key == k).map(|x| x.kind == OutKind::Press).unwrap_or(false);
                        if (st_of("LShift") || st_of("LAlt")) && !o.failed() {
                            o.set_fail("C06:later-key-still-modified", format!("variant {v}: the key typed after the cancelling re-press came out modified: {}", outs_short(&outs)), vec![]);
                        }
                    }
                }
            }
            "repress" => {
                if payload != "layer" && !o.failed() {
                    let t_a2 = arr.iter().filter(|(_, op)| matches!(op, Op::Press(c) if *c == a)).nth(1).map(|x| x.0).unwrap_or(0);
                    if t_a2 + 1 < t_a + t {
                        if is_pcancel(&v) {
                            let bound = t_a2 + 1 + red + 4;
                            if last_m_release.map(|x| x > bound).unwrap_or(true) {
                                o.set_fail("C06:pcancel-did-not-end-on-repress", format!("re-press at {t_a2}: payload release {last_m_release:?} > {bound}: {}", outs_short(&outs)), vec![]);
                            }
                        } else {
                            let want = t_a2 + 1 + t;
                            if last_m_release != Some(want) {
                                o.set_fail("C06:repress-did-not-restart-timeout", format!("re-press at {t_a2}, T={t}: expiry expected in tick {want}, got {last_m_release:?}: {}", outs_short(&outs)), vec![]);
                            }
                        }
                    }
                }
            }
            _ => {}
        }
        if want_sample {
            o.sample = Some(sample_json(case, &outs, json!({"variant": v, "T": t, "red": red, "payload": payload, "pop": pop})));
        }
        o
    }
    fn assumptions(&self) -> Vec<String> {
        vec![
            "tick conventions (DESIGN.md D5): payload down in tick a+1; expiry in tick (last activation)+1+T".into(),
            "a following key that arrives within 1 ms of the expiry instant is counted (boundary.key-at-expiry) but not judged either way".into(),
        ]
    }
}
