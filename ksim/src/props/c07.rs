//! C07 — idle blocking is unobservable (part 1: differential, executor A).
//! The same history is run twice on fresh instances: TICKING (never skip) and BLOCKING (skip
//! whenever the real can-block decision says so). Traces must be equal event for event with time
//! measured relative to the preceding input; in the ticking run nothing may be output after a
//! point where the decision was true and before the next input.

use super::common::*;
use super::*;
use crate::exec_a::*;
use crate::gen::*;
use crate::ops::*;
use crate::trace::*;
use serde_json::json;

pub struct C07;

impl Prop for C07 {
    fn id(&self) -> &'static str {
        "C07"
    }
    fn rule_text(&self) -> String {
        "case = (config with all time-dependent features; physically consistent history with gaps up to 70 000 ms incl. boundary gaps around every timeout, 10 000 / 65 536 ms gaps, TCP-style virtual key ops, repeats, clock jumps). Each case is executed twice from scratch, sequentially: ticking and blocking. Part 3 (late loop): every third case without on-idle / dynamic macros is run again in blocking mode with 2 / 5 / 40 ms per loop iteration (tick_ms(n)) and must give the same outputs at the same ticks. non-trivial = the blocking run actually skipped idle time (idle block taken) and produced output; distinct = distinct output trace signature.".into()
    }
    fn runs(&self, tier: Tier) -> u64 {
        match tier {
            Tier::Quick => 16_000,
            Tier::Thorough => 600_000,
        }
    }
    fn gen(&self, seed: u64, tier: Tier) -> Case {
        let mut r = Rng::new(seed);
        if r.chance(150) {
            // 'loop' population (executor B): the real processing-loop thread, an input feeder and a
            // TCP-client task under the seeded scheduler with a virtual clock
            // (dynamic macro replay fast-forwards the recorded delays inside one tick_ms call: the
            // recorder's tick clock and the stepper's millisecond clock then disagree by design)
            let o = GenOpts { feats: feat::ALL_RUNTIME & !feat::DELAY & !feat::ZIPPY & !feat::DYNMACRO, max_keys: 6, max_layers: 3, max_depth: 2, hostile: false };
            if r.chance(200) {
                // 'loop-record': a dynamic macro is recorded through idle periods on the real loop;
                // the recorded delays must equal those of the stepper (no replay: it fast-forwards)
                let cfg = "(defsrc a b c j)\n(deflayer l0 x (tap-hold 30 30 y lsft) z (dynamic-macro-record 1))\n".to_string();
                let mut case = Case { prop: "C07".into(), seed, cfg, ..Default::default() };
                let (ka, kb, kc, kj) = (oscode_of("a"), oscode_of("b"), oscode_of("c"), oscode_of("j"));
                let mut ops = vec![Op::Gap(r.range(1, 30) as u32), Op::Press(kj), Op::Gap(2), Op::Release(kj), Op::Gap(r.range(1, 400) as u32)];
                for _ in 0..r.range(1, 6) {
                    let k = *r.pick(&[ka, kb, kc]);
                    ops.push(Op::Press(k));
                    ops.push(Op::Gap(*r.pick(&[1u32, 3, 20, 50, 300])));
                    ops.push(Op::Release(k));
                    ops.push(Op::Gap(*r.pick(&[1u32, 2, 10, 100, 1000, 2500])));
                }
                ops.push(Op::Press(kj));
                ops.push(Op::Gap(2));
                ops.push(Op::Release(kj));
                ops.push(Op::Gap(300));
                case.ops = ops;
                case.set("pop", "loop");
                case.set("b_mode", "strict");
                case.set("b_seed", r.next_u64());
                case.set("compare_recording", 1);
                case.set("min_cfg", 0);
                case.set("min_gaps", 0);
                case.set("min_ops", 0);
                return case;
            }
            // the final silence of a loop run is capped at 6 s: configurations whose longest timer is
            // longer than that (a 65535 ms chord timeout...) cannot be judged at the end
            let mut spec = gen_general(&mut r, &o);
            for _ in 0..6 {
                if quiescence_bound(&spec_text(&spec), &[]) <= 5_000 {
                    break;
                }
                spec = gen_general(&mut r, &o);
            }
            let mut case = Case { prop: "C07".into(), seed, cfg: spec_text(&spec), files: spec.files.clone(), ..Default::default() };
            let keys: Vec<u16> = spec.src.iter().map(|k| oscode_of(k)).filter(|c| *c != 0 && !is_wheel_code(*c)).collect();
            let ho = HistOpts {
                keys,
                max_events: 20,
                consistent: true,
                // (OS repeat events are answered outside a tick; the recorder cannot place them)
                repeats: false,
                timeouts: spec.timeouts.clone(),
                long_gap_permille: 80,
                very_long_gap_permille: 0,
                max_gap: 3_000,
                vkeys: spec.vkeys.iter().map(|v| v.0.clone()).collect(),
                vkey_permille: if r.chance(400) { 80 } else { 0 },
                vkey_balanced: true,
                layers: spec.layer_names(),
                change_layer_permille: if r.chance(200) { 30 } else { 0 },
                ..Default::default()
            };
            case.ops = gen_history(&mut r, &ho);
            // every event is followed by at least 1 ms (the loop takes one event per iteration)
            let mut ops2 = vec![];
            for op in case.ops.drain(..) {
                let is_gap = matches!(op, Op::Gap(_));
                ops2.push(op);
                if !is_gap {
                    ops2.push(Op::Gap(1));
                }
            }
            case.ops = ops2;
            case.ops.push(Op::Gap(quiescence_bound(&case.cfg, &case.ops).min(6_000) as u32));
            case.set("pop", "loop");
            case.set("b_mode", *r.pick(&["strict", "strict", "jitter", "stall"]));
            case.set("b_seed", r.next_u64());
            case.set("min_cfg", 0);
            case.set("min_gaps", 0);
            case.set("min_ops", 0);
            return case;
        }
        if r.chance(200) {
            // 'timers' population: every feature whose outcome depends on time that passes while
            // nothing else happens, probed with pauses around its threshold (the idle decision must
            // not be taken while such a clock still matters)
            let t = *r.pick(&[20u64, 50, 200, 1000]);
            let t2 = *r.pick(&[10u64, 30, 120]);
            let cmp = *r.pick(&["lt", "gt", "less-than", "greater-than"]);
            let nth = r.range(1, 3);
            let acts = [
                format!("(switch ((key-timing {nth} {cmp} {t})) x break () y break)"),
                format!("(switch ((key-timing 1 lt {t2})) 1 fallthrough ((key-timing {nth} {cmp} {t})) x break () y break)"),
                format!("(tap-dance {t} (x y z))"),
                format!("(tap-dance-eager {t} (x y z))"),
                format!("(one-shot {t} lsft)"),
                format!("(tap-hold {t2} {t} x lctl)"),
                format!("(tap-hold-release-timeout {t2} {t} x lctl z)"),
                format!("(macro x {t} y)"),
                format!("(multi (on-press press-vkey vk0) (on-release release-vkey vk0))"),
                format!("(hold-for-duration {t} vk0)"),
                format!("(caps-word {t})"),
                format!("(one-shot-pause-processing {t})"),
                // two keys pressed in the same tick: the second most recent key is as old as the most
                // recent one, which is the one the can-block decision looks at
                "S-x".to_string(),
                "C-S-y".to_string(),
            ];
            let a1 = r.pick(&acts).clone();
            let a2 = r.pick(&acts).clone();
            let cfg = format!("(defcfg concurrent-tap-hold yes)\n(defsrc a b c d)\n(defvirtualkeys vk0 ralt)\n(deflayer l0 a b {a1} {a2})\n");
            let mut case = Case { prop: "C07".into(), seed, cfg, ..Default::default() };
            let keys = [oscode_of("a"), oscode_of("b"), oscode_of("c"), oscode_of("d")];
            let mut ops = vec![];
            // one pause per case may be longer than a 16-bit tick counter holds: time that passed
            // while blocked must not be taken modulo 65536 anywhere
            let mut wrap_left = if r.chance(300) { 1 } else { 0 };
            for _ in 0..r.range(2, 7) {
                let k = *r.pick(&keys);
                ops.push(Op::Press(k));
                ops.push(Op::Gap(*r.pick(&[1u32, 2, 5, 15])));
                ops.push(Op::Release(k));
                let th = *r.pick(&[t, t2]);
                let mut g = *r.pick(&[th.saturating_sub(2), th.saturating_sub(1), th, th + 1, th + 2, th + 50, th * 10, 3, 1]);
                if wrap_left > 0 && r.chance(400) {
                    wrap_left -= 1;
                    g = *r.pick(&[65_535u64, 65_536, 65_537, 65_536 + th / 2, 65_536 + th.saturating_sub(1), 65_536 + th + 1, 131_072 + th / 2]);
                }
                ops.push(Op::Gap(g.max(1) as u32));
            }
            ops.push(Op::Gap(r.range(100, 1500) as u32));
            case.ops = ops;
            case.set("pop", "timers");
            return case;
        }
        let o = GenOpts { feats: feat::ALL_RUNTIME & !feat::DELAY, max_keys: 7, max_layers: 3, max_depth: 3, hostile: false };
        let spec = gen_general(&mut r, &o);
        let mut case = Case { prop: "C07".into(), seed, cfg: spec_text(&spec), files: spec.files.clone(), ..Default::default() };
        let keys: Vec<u16> = spec.src.iter().map(|k| oscode_of(k)).filter(|c| *c != 0).collect();
        let ho = HistOpts {
            keys,
            max_events: if matches!(tier, Tier::Thorough) { 60 } else { 30 },
            consistent: true,
            repeats: r.chance(200),
            tap_events: false,
            dup_orphan_permille: 0,
            burst_permille: *r.pick(&[0, 0, 30]),
            max_burst: 8,
            timeouts: spec.timeouts.clone(),
            long_gap_permille: 150,
            very_long_gap_permille: *r.pick(&[0, 30, 60]),
            max_gap: 70_000,
            vkeys: spec.vkeys.iter().map(|v| v.0.clone()).collect(),
            vkey_permille: if r.chance(300) { 60 } else { 0 },
            vkey_balanced: true,
            layers: spec.layer_names(),
            change_layer_permille: if r.chance(200) { 30 } else { 0 },
            clock_jump_permille: 0,
        };
        case.ops = gen_history(&mut r, &ho);
        // a final long silence so that every pending timeout is crossed
        case.ops.push(Op::Gap(r.range(100, 3000) as u32));
        // bound the simulated time of one case (it is run two or three times, one of them ticking
        // through every millisecond): once 150 s have accumulated, later long gaps are cut to 1 s.
        // With something busy in every tick a longer history does not fit the per-run watchdog.
        let mut total: u64 = 0;
        for op in case.ops.iter_mut() {
            if let Op::Gap(n) = op {
                if total > 150_000 && *n > 1_000 {
                    *n = 1_000;
                }
                total += *n as u64;
            }
        }
        case
    }
    fn check(&self, case: &Case, want_sample: bool) -> RunOut {
        if !history_consistent(&case.ops) {
            return RunOut::skip("history-not-consistent");
        }
        if case.param("pop") == Some("loop") {
            return check_loop(case, want_sample);
        }
        let mut a = match Stepper::new_filtered(&case.cfg, &case.files, Mode::Ticking) {
            Ok(s) => s,
            Err(_) => return RunOut::skip("parser-rejected"),
        };
        a.out_limit = 60_000;
        // final silence long enough for both runs to drain whatever is pending
        let tail = quiescence_bound(&case.cfg, &case.ops).min(70_000);
        let zch0 = kanata_state_machine::verif_seam::ZCH_EFFECTIVE_FORCED_RESETS.load(std::sync::atomic::Ordering::Relaxed);
        a.run_ops(&case.ops);
        a.gap(tail);
        a.finish();
        let zch_resets_ticking = kanata_state_machine::verif_seam::ZCH_EFFECTIVE_FORCED_RESETS.load(std::sync::atomic::Ordering::Relaxed) - zch0;
        let ta = std::mem::take(&mut a.trace);
        let pa = a.probes.clone();
        let a_too_slow = a.too_slow;
        drop(a);
        // a history that produces output in nearly every millisecond for minutes of simulated time
        // (a repeating macro held down through the long gaps) costs more wall time than the per-run
        // watchdog allows once it is run two more times: left to C02 / C08, counted here
        if ta.outs.len() > 60_000 {
            return RunOut::skip("more-than-60000-outputs");
        }
        if a_too_slow {
            return RunOut::skip("run-longer-than-6s-wall-clock");
        }
        let mut b = match Stepper::new_filtered(&case.cfg, &case.files, Mode::Blocking) {
            Ok(s) => s,
            Err(_) => return RunOut::skip("parser-rejected"),
        };
        b.run_ops(&case.ops);
        b.gap(tail);
        b.finish();
        let tb = std::mem::take(&mut b.trace);
        let mut o = RunOut::pass();
        if let Some(p) = case.param("pop") {
            o.count(&format!("pop.{p}"), 1);
        }
        o.sim_ms = ta.sim_ms + tb.sim_ms;
        o.sig = trace_sig(&ta.outs);
        o.nontrivial = tb.skipped_ms > 0 && !ta.outs.is_empty();
        probes_into(&mut o, &pa, &tb);
        fault_counts(&mut o, &case.ops);
        o.count("probe.blockable_points", (ta.blockable_points > 0) as u64);
        let mut tags: Vec<String> = vec![];
        for (needle, tag) in [("defzippy", "cfg:defzippy"), ("dynamic-macro", "cfg:dynamic-macro"), ("on-idle", "cfg:on-idle"), ("defchordsv2", "cfg:defchordsv2")] {
            if case.cfg.contains(needle) {
                tags.push(tag.to_string());
            }
        }
        if case.ops.iter().any(|op| matches!(op, Op::Gap(n) if *n >= 10_000)) {
            tags.push("gap>=10000".into());
        }
        // attribution for the known zippychord finding (hook H2): zippy's 10000-tick contingency
        // reset changed zippy's state during the ticking run
        if zch_resets_ticking > 0 {
            tags.push("zippy-contingency-reset-fired".into());
        }
        // (1) nothing is output after the decision was true
        if let Some(e) = ta.outputs_while_blockable.first() {
            o.set_fail(
                "C07:output-while-blockable",
                format!("ticking run: {} outputs after can-block was true and before the next input; first: {} (after input #{} +{} ticks)", ta.outputs_while_blockable.len(), outs_short(&[e.clone()]), e.in_idx, e.dt),
                tags.clone(),
            );
        }
        // (2) traces equal relative to the preceding input
        if !o.failed() {
            let n = ta.outs.len().min(tb.outs.len());
            let mut diff: Option<usize> = None;
            for i in 0..n {
                let (x, y) = (&ta.outs[i], &tb.outs[i]);
                if x.kind != y.kind || x.key != y.key || x.in_idx != y.in_idx || x.dt != y.dt {
                    diff = Some(i);
                    break;
                }
            }
            if diff.is_none() && ta.outs.len() != tb.outs.len() {
                diff = Some(n);
            }
            if let Some(i) = diff {
                let fmt = |t: &Vec<OutEv>| -> String {
                    t.iter().skip(i.saturating_sub(2)).take(6).map(|e| format!("{}(in#{}+{})", outs_short(&[e.clone()]), e.in_idx as i64, e.dt)).collect::<Vec<_>>().join(" ")
                };
                o.set_fail(
                    "C07:ticking-vs-blocking-divergence",
                    format!("output #{i} differs. ticking: [{}] blocking: [{}] (ticking outs {}, blocking outs {}, skipped {} ms)", fmt(&ta.outs), fmt(&tb.outs), ta.outs.len(), tb.outs.len(), tb.skipped_ms),
                    tags.clone(),
                );
            }
        }
        // (3) "late loop": the blocking loop again, but every iteration that is not blocked covers
        // 2, 5 or 40 ms at once (tick_ms(n)): same keys at the same ticks
        // (on-idle counts idle time once per loop iteration: a late loop fires it late by less than
        // the iteration's length, which is the loop's own resolution; a dynamic macro replayed with its recorded delays
        // re-times itself by what one iteration covered: such configurations are left out here, C01 / C19 run them)
        if !o.failed() && case.seed % 3 == 0 && !case.cfg.contains("on-idle") && !case.cfg.contains("dynamic-macro") {
            let k = [2u64, 5, 40][((case.seed / 3) % 3) as usize];
            let mut c = match Stepper::new_filtered(&case.cfg, &case.files, Mode::Blocking) {
                Ok(s) => s,
                Err(_) => return o,
            };
            c.batch = k;
            c.run_ops(&case.ops);
            c.gap(tail);
            c.finish();
            let tc = std::mem::take(&mut c.trace);
            o.count("late-loop.runs", 1);
            let n = tb.outs.len().min(tc.outs.len());
            let mut diff: Option<usize> = (0..n).find(|i| {
                let (x, y) = (&tb.outs[*i], &tc.outs[*i]);
                x.kind != y.kind || x.key != y.key || x.in_idx != y.in_idx || x.dt != y.dt
            });
            if diff.is_none() && tb.outs.len() != tc.outs.len() {
                diff = Some(n);
            }
            if let Some(i) = diff {
                let fmt = |t: &Vec<OutEv>| -> String { t.iter().skip(i.saturating_sub(2)).take(6).map(|e| format!("{}(in#{}+{})", outs_short(&[e.clone()]), e.in_idx as i64, e.dt)).collect::<Vec<_>>().join(" ") };
                let mut t2 = tags.clone();
                t2.push("late-loop".into());
                o.set_fail("C07:late-loop-divergence", format!("output #{i} differs with {k} ms per loop iteration. 1 ms: [{}] {k} ms: [{}]", fmt(&tb.outs), fmt(&tc.outs)), t2);
            }
        }
        if want_sample {
            o.sample = Some(sample_json(case, &ta.outs, json!({"ticking_ticks": ta.ticks, "blocking_ticks": tb.ticks, "skipped_ms": tb.skipped_ms, "blockable_points": ta.blockable_points})));
        }
        o
    }
    fn assumptions(&self) -> Vec<String> {
        vec![
            "time is measured in ticks since the preceding input event (what the processing loop can observe)".into(),
            "the two runs execute sequentially in one process on fresh Kanata instances (process-global state is reset by construction)".into(),
            "part 2 (real threaded loop vs stepper) is a separate population of this check (executor B)".into(),
        ]
    }
}

/// Part 2 of C07 (executor B): the real processing-loop thread.
/// * strict mode (no jitter, ties resolved feeder-first): the loop's output must equal, tick for tick,
///   what executor A in idle-blocking mode produces for the same history — the real loop (blocking
///   recv, wake-up, one tick per elapsed ms, sleep) and the stepper's protocol are the same function.
/// * jitter / stall modes (per-step cost up to 300 us, sleep overshoot; stalls of 2-40 ms): the loop
///   must terminate when its channel closes, nobody may deadlock or panic, and after the final
///   silence nothing may be left down at the OS.
fn check_loop(case: &Case, want_sample: bool) -> RunOut {
    use crate::exec_b::*;
    let mode = case.param("b_mode").unwrap_or("strict").to_string();
    let bseed = case.param_u64("b_seed").unwrap_or(1);
    let sim = match mode.as_str() {
        "strict" => kanata_verif_rt::SimCfg { seed: bseed, tape: Some(vec![]), max_steps: 20_000_000, ..Default::default() },
        "jitter" => kanata_verif_rt::SimCfg { seed: bseed, cost_max_ns: 300_000, switch_permille: 200, sleep_overshoot_max_ns: 400_000, max_steps: 20_000_000, ..Default::default() },
        _ => kanata_verif_rt::SimCfg { seed: bseed, cost_max_ns: 300_000, switch_permille: 200, stall_permille: 15, stall_min_ns: 2_000_000, stall_max_ns: 40_000_000, sleep_overshoot_max_ns: 400_000, max_steps: 20_000_000, ..Default::default() },
    };
    if !config_is_non_latching(&case.cfg) {
        return RunOut::skip("config-latches-a-virtual-key");
    }
    // the loop thread is given 1 ms to reach its first blocking recv() before anything happens (a
    // TCP operation racing with the start-up of the loop thread is a different, legitimate schedule)
    let mut ops_b: Vec<Op> = vec![Op::Gap(1)];
    ops_b.extend(case.ops.iter().cloned());
    // in strict mode TCP-style operations are performed by the feeder itself at their scheduled time
    // (the stepper applies them there); a separate TCP-client task runs in the jitter / stall modes
    let b = match run_b(&case.cfg, &case.files, &ops_b, &BOpts { sim, tcp_task: mode != "strict", phase_us: 0 }) {
        Ok(b) => b,
        Err(e) if e.contains("simulation aborted") => {
            let mut o = RunOut::pass();
            o.set_fail("C07:loop-panicked", e, vec![]);
            return o;
        }
        Err(_) => return RunOut::skip("parser-rejected"),
    };
    let mut o = RunOut::pass();
    o.count("pop.loop", 1);
    o.count(&format!("loop.mode.{mode}"), 1);
    o.count("loop.scheduling-points", b.report.steps);
    o.count("loop.task-switches", b.report.switches);
    o.count("loop.stalls-injected", b.report.stalls);
    o.count("loop.clock-jumps", b.report.clock_jumps);
    o.sim_ms = b.end_ms.saturating_sub(1_000_000);
    o.sig = b.report.schedule_hash ^ trace_sig(&b.outs);
    o.nontrivial = !b.outs.is_empty();
    if !b.report.panics.is_empty() {
        o.set_fail("C07:loop-panicked", format!("{:?}", b.report.panics), vec![]);
        return o;
    }
    if b.report.deadlock || b.report.leaked > 0 || b.report.overrun {
        o.set_fail("C07:loop-did-not-terminate", format!("deadlock={} leaked tasks={} step overrun={} after the input channel was closed", b.report.deadlock, b.report.leaked, b.report.overrun), vec![]);
        return o;
    }
    if mode == "strict" {
        let mut a = match Stepper::new_filtered(&case.cfg, &case.files, Mode::Blocking) {
            Ok(s) => s,
            Err(_) => return RunOut::skip("parser-rejected"),
        };
        a.run_ops(&ops_b);
        a.finish();
        let ta = &a.trace.outs;
        let same = ta.len() == b.outs.len() && ta.iter().zip(b.outs.iter()).all(|(x, y)| x.t == y.t && x.kind == y.kind && x.key == y.key);
        if !same {
            let i = ta.iter().zip(b.outs.iter()).position(|(x, y)| !(x.t == y.t && x.kind == y.kind && x.key == y.key)).unwrap_or(ta.len().min(b.outs.len()));
            let f = |t: &Vec<OutEv>| outs_short(&t.iter().skip(i.saturating_sub(2)).take(8).cloned().collect::<Vec<_>>());
            o.set_fail("C07:real-loop-differs-from-loop-protocol", format!("output #{i} differs: real loop thread [{}] stepper (idle-blocking protocol) [{}]; ops {}", f(&b.outs), f(ta), ops_short(&case.ops)), vec![]);
            return o;
        }
        if case.param_flag("compare_recording") {
            let rec_a = format!("{:?}", a.k.dynamic_macros);
            if rec_a != b.dynamic_macros {
                o.set_fail("C07:recording-differs-on-the-real-loop", format!("dynamic macro recorded through idle periods: real loop {} stepper {}; ops {}", b.dynamic_macros, rec_a, ops_short(&case.ops)), vec![]);
                return o;
            }
            o.count("loop.recording-equal-to-stepper", 1);
        }
        o.count("loop.strict-equal-to-stepper", 1);
    } else if !b.down_at_end.is_empty() && quiescence_bound(&case.cfg, &case.ops) > 6_000 {
        o.count("loop.end-state-not-judged-timer-longer-than-final-silence", 1);
    } else if !b.down_at_end.is_empty() {
        // under jitter the decisions may differ from the stepper's; the end state may not
        let mut a = match Stepper::new_filtered(&case.cfg, &case.files, Mode::Blocking) {
            Ok(s) => s,
            Err(_) => return RunOut::skip("parser-rejected"),
        };
        a.run_ops(&ops_b);
        a.finish();
        if a.down_set().is_empty() {
            let mut tags = vec![];
            if b.custom_events_dropped > 0 {
                tags.push("custom-events-collided".to_string());
            }
            o.set_fail("C07:loop-left-output-down", format!("mode {mode}: {:?} still down after the final silence although the jitter-free execution ends with nothing down ({} custom events dropped): {}", b.down_at_end, b.custom_events_dropped, outs_short(&b.outs)), tags);
            return o;
        }
        o.count("loop.down-at-end-also-without-jitter", 1);
    }
    if want_sample {
        o.sample = Some(sample_json(case, &b.outs, json!({"mode": mode, "steps": b.report.steps, "switches": b.report.switches, "stalls": b.report.stalls, "schedule_hash": format!("{:x}", b.report.schedule_hash)})));
    }
    o
}
