//! C08 — macros play exactly their key list, in order, and always end with keys released.

use super::common::*;
use super::*;
use crate::exec_a::*;
use crate::gen::*;
use crate::ops::*;
use crate::sx::*;
use crate::trace::*;
use serde_json::json;

pub struct C08;

const VARIANTS: &[&str] = &[
    "macro",
    "macro-repeat",
    "macro-release-cancel",
    "macro-repeat-release-cancel",
    "macro-cancel-on-press",
    "macro-repeat-cancel-on-press",
    "macro-release-cancel-and-cancel-on-press",
    "macro-repeat-release-cancel-and-cancel-on-press",
];

// per-macro disjoint alphabets so that the projection onto "the macro's keys" is well defined
const LETTERS_OF: &[&[&str]] = &[&["x", "y", "z", "w"], &["p", "q", "r", "s"], &["f", "g", "h", "i"], &["j", "k", "l", "m"], &["n", "o", "t", "u"], &["v", "e", "d", "6"]];
const MODS_OF: &[&[(&str, &str)]] = &[&[("S-", "lsft"), ("C-", "lctl")], &[("A-", "lalt"), ("M-", "lmet")], &[("RS-", "rsft"), ("RC-", "rctl")], &[("RA-", "ralt"), ("RM-", "rmet")], &[("S-", "lsft")], &[("C-", "lctl")]];
const UNI_OF: &[&str] = &["é", "ü", "λ", "ß", "ø", "ñ"];

#[derive(Clone, Debug, PartialEq)]
enum Step {
    Press(String),
    Release(String),
    Delay(u64),
    Uni(String),
}

fn disp(name: &str) -> String {
    code_name(oscode_of(name))
}

fn gen_items(r: &mut Rng, mi: usize, depth: usize, held: &[&str]) -> Vec<SX> {
    let n = r.range(1, 5);
    let mut v = vec![];
    for _ in 0..n {
        match r.pick_w(&[10, 4, 3, if depth < 2 { 3 } else { 0 }, 1, if depth < 2 { 1 } else { 0 }]) {
            0 => v.push(a(*r.pick(LETTERS_OF[mi]))),
            1 => v.push(num(*r.pick(&[1u64, 2, 5, 17, 40]))),
            2 => {
                // a modifier that an enclosing group already holds is not used again (nesting
                // the same modifier is outside what the docs define)
                let avail: Vec<&(&str, &str)> = MODS_OF[mi].iter().filter(|m| !held.contains(&m.0)).collect();
                if avail.is_empty() {
                    v.push(a(*r.pick(LETTERS_OF[mi])));
                } else {
                    let m = *r.pick(&avail);
                    v.push(a(format!("{}{}", m.0, r.pick(LETTERS_OF[mi]))));
                }
            }
            3 => {
                let avail: Vec<&(&str, &str)> = MODS_OF[mi].iter().filter(|m| !held.contains(&m.0)).collect();
                if avail.is_empty() {
                    v.push(a(*r.pick(LETTERS_OF[mi])));
                } else {
                    let m = *r.pick(&avail);
                    v.push(a(m.0));
                    let mut h2: Vec<&str> = held.to_vec();
                    h2.push(m.0);
                    v.push(l(gen_items(r, mi, depth + 1, &h2)));
                }
            }
            4 => v.push(call("unicode", vec![a(UNI_OF[mi])])),
            _ => v.push(l(gen_items(r, mi, depth + 1, held))),
        }
    }
    v
}

/// The documented meaning of a macro body (docs/config.adoc "macro"): keys are tapped, numbers are
/// delays in ms, `C-x` presses the modifiers, taps x, releases them in reverse, `S-(...)` holds the
/// modifier around the listed items, a nested list is just its items.
fn flatten(items: &[SX], mods_table: &[(&str, &str)], out: &mut Vec<Step>) {
    let mut i = 0;
    while i < items.len() {
        match &items[i] {
            SX::A(s) => {
                if let Ok(n) = s.parse::<u64>() {
                    out.push(Step::Delay(n));
                } else if let Some(m) = mods_table.iter().find(|m| m.0 == s) {
                    // prefix followed by a list
                    if let Some(SX::L(inner)) = items.get(i + 1) {
                        out.push(Step::Press(disp(m.1)));
                        flatten(inner, mods_table, out);
                        out.push(Step::Release(disp(m.1)));
                        i += 1;
                    }
                } else if let Some(m) = mods_table.iter().find(|m| s.starts_with(m.0) && s.len() > m.0.len()) {
                    let k = &s[m.0.len()..];
                    out.push(Step::Press(disp(m.1)));
                    out.push(Step::Press(disp(k)));
                    out.push(Step::Release(disp(k)));
                    out.push(Step::Release(disp(m.1)));
                } else {
                    out.push(Step::Press(disp(s)));
                    out.push(Step::Release(disp(s)));
                }
            }
            SX::L(v) => {
                if v.first().and_then(|h| h.atom()) == Some("unicode") {
                    out.push(Step::Uni(v[1].atom().unwrap_or("").to_string()));
                } else {
                    flatten(v, mods_table, out);
                }
            }
        }
        i += 1;
    }
}

impl Prop for C08 {
    fn id(&self) -> &'static str {
        "C08"
    }
    fn rule_text(&self) -> String {
        "case = 1-6 macro keys (all 8 macro variants) whose bodies are generated from the macro grammar (keys, delays, C-x chords, S-(...) groups, nested lists, unicode) over per-macro disjoint key alphabets + 2 plain keys; populations: single (press, hold g, release), interleaved with plain keys, concurrent <= 4, concurrent > 4 (ring wrap: end state only), cancel-on-press. The expected step list comes from a 40-line flattener written from the docs. non-trivial = at least one macro step was output; distinct = config x schedule hash.".into()
    }
    fn runs(&self, tier: Tier) -> u64 {
        match tier {
            Tier::Quick => 500_000,
            Tier::Thorough => 20_000_000,
        }
    }
    fn gen(&self, seed: u64, _tier: Tier) -> Case {
        let mut r = Rng::new(seed);
        if r.chance(80) {
            // 'shared-mod' population: the user physically holds (or presses and releases) the very
            // modifier a macro holds around a group; the macro's group must stay modified whatever
            // the user does with the physical key
            let (mname, mkey, mout) = *r.pick(&[("S", "lsft", "LShift"), ("C", "lctl", "LCtrl"), ("A", "lalt", "LAlt")]);
            let d = *r.pick(&[5u64, 20, 50]);
            let variant = *r.pick(&["macro", "macro-release-cancel", "macro-repeat"]);
            let tail = if r.chance(400) { " z" } else { "" };
            let mut case = Case { prop: "C08".into(), seed, ..Default::default() };
            case.cfg = format!("(defsrc a lsft lctl lalt)\n(deflayer l0 ({variant} {mname}-(x {d} y){tail}) lsft lctl lalt)\n");
            let (ka, km) = (oscode_of("a"), oscode_of(mkey));
            let mut ops = vec![Op::Gap(2)];
            let before = r.chance(600);
            if before {
                // modifier held before the macro starts
                ops.push(Op::Press(km));
                ops.push(Op::Gap(r.range(1, 10) as u32));
                ops.push(Op::Press(ka));
                ops.push(Op::Gap(r.range(1, d + 8) as u32));
                ops.push(Op::Release(km));
                ops.push(Op::Gap((d + 20) as u32));
                ops.push(Op::Release(ka));
            } else {
                // modifier tapped while the macro holds it
                ops.push(Op::Press(ka));
                ops.push(Op::Gap(r.range(2, d.max(3)) as u32));
                ops.push(Op::Press(km));
                ops.push(Op::Gap(r.range(1, 6) as u32));
                ops.push(Op::Release(km));
                ops.push(Op::Gap((d + 20) as u32));
                ops.push(Op::Release(ka));
            }
            ops.push(Op::Gap(60));
            case.ops = ops;
            case.set("pop", "shared-mod");
            case.set("mod_out", mout);
            case.set("min_ops", 0);
            case.set("min_gaps", 0);
            case.set("min_cfg", 0);
            return case;
        }
        if r.chance(60) {
            // 'vkey-macro' population: a plain macro on a virtual key, started by the RELEASE of a
            // key (no physical press starts it), right after a release-cancel macro - possibly one
            // that also cancels on press - was cancelled by releasing its key; then a plain key is
            // typed while the virtual key's macro runs. That macro is an ordinary one: it outputs its
            // whole list.
            let v = *r.pick(&["macro-release-cancel-and-cancel-on-press", "macro-release-cancel-and-cancel-on-press", "macro-release-cancel"]);
            let mut case = Case { prop: "C08".into(), seed, ..Default::default() };
            case.cfg = format!("(defsrc a b c)\n(defvirtualkeys vm (macro p 20 q 20 r))\n(deflayer l0 ({v} x 300 y) (on-release tap-vkey vm) 1)\n");
            let (a, b, c) = (oscode_of("a"), oscode_of("b"), oscode_of("c"));
            let mut ops = vec![Op::Gap(2), Op::Press(b), Op::Gap(r.range(2, 10) as u32), Op::Press(a), Op::Gap(r.range(10, 60) as u32), Op::Release(a), Op::Gap(r.range(3, 30) as u32), Op::Release(b)];
            ops.push(Op::Gap(r.range(4, 35) as u32));
            ops.push(Op::Press(c));
            ops.push(Op::Gap(5));
            ops.push(Op::Release(c));
            ops.push(Op::Gap(300));
            case.ops = ops;
            case.set("pop", "vkey-macro");
            case.set("min_ops", 0);
            case.set("min_gaps", 0);
            case.set("min_cfg", 0);
            return case;
        }
        if r.chance(80) {
            // 'repeat-pair' population: two or three plain macro-repeat keys held at the same time
            // and released in any order: each macro stops restarting once ITS key is up
            let n = r.range(2, 3) as usize;
            let names = ["a", "d", "e"];
            let marks = ["x", "y", "z"];
            let delays: Vec<u64> = (0..n).map(|_| *r.pick(&[10u64, 15, 20, 30])).collect();
            let acts: Vec<String> = (0..n).map(|i| format!("(macro-repeat {} {})", marks[i], delays[i])).collect();
            let mut case = Case { prop: "C08".into(), seed, ..Default::default() };
            case.cfg = format!("(defsrc {} b c)\n(deflayer l0 {} 1 2)\n", names[..n].join(" "), acts.join(" "));
            let mut ops = vec![Op::Gap(2)];
            let mut order: Vec<usize> = (0..n).collect();
            r.shuffle(&mut order);
            for i in &order {
                ops.push(Op::Press(oscode_of(names[*i])));
                ops.push(Op::Gap(r.range(5, 60) as u32));
            }
            ops.push(Op::Gap(r.range(20, 80) as u32));
            r.shuffle(&mut order);
            for i in &order {
                ops.push(Op::Release(oscode_of(names[*i])));
                ops.push(Op::Gap(r.range(30, 120) as u32));
            }
            ops.push(Op::Gap(400));
            case.ops = ops;
            case.set("pop", "repeat-pair");
            case.set("delays", delays.iter().map(|d| d.to_string()).collect::<Vec<_>>().join(","));
            case.set("min_ops", 0);
            case.set("min_cfg", 0);
            return case;
        }
        let pop = *r.pick(&["single", "single", "interleaved", "concurrent", "overflow", "cancel-press"]);
        let nm = match pop {
            "single" | "interleaved" | "cancel-press" => 1,
            "concurrent" => r.range(2, 4) as usize,
            _ => r.range(5, 6) as usize,
        };
        let mut case = Case { prop: "C08".into(), seed, ..Default::default() };
        let mut acts = vec![];
        let mut variants = vec![];
        for mi in 0..nm {
            let v = match pop {
                "interleaved" => *r.pick(&["macro", "macro-repeat", "macro-release-cancel", "macro-repeat-release-cancel"]),
                "concurrent" | "overflow" => *r.pick(&["macro", "macro-release-cancel"]),
                "cancel-press" => *r.pick(&["macro-cancel-on-press", "macro-release-cancel-and-cancel-on-press", "macro-repeat-cancel-on-press"]),
                _ => *r.pick(VARIANTS),
            };
            variants.push(v.to_string());
            let items = gen_items(&mut r, mi, 0, &[]);
            acts.push(call(v, items).to_text());
        }
        let names = ["a", "d", "e", "f", "g", "h"];
        case.cfg = format!("(defsrc {} b c)\n(deflayer l0 {} 1 2)\n", names[..nm].join(" "), acts.join(" "));
        let mk: Vec<u16> = names[..nm].iter().map(|n| oscode_of(n)).collect();
        let (b, c) = (oscode_of("b"), oscode_of("c"));
        let mut ops = vec![];
        match pop {
            "single" => {
                ops.push(Op::Press(mk[0]));
                let g = *r.pick(&[0u32, 1, 2, 3, 5, 9, 20, 60, 150]);
                if g > 0 {
                    ops.push(Op::Gap(g));
                }
                ops.push(Op::Release(mk[0]));
            }
            "interleaved" => {
                ops.push(Op::Press(mk[0]));
                let mut down: Vec<u16> = vec![];
                for _ in 0..r.range(1, 6) {
                    ops.push(Op::Gap(r.range(0, 6) as u32));
                    if !down.is_empty() && r.chance(300) {
                        // the OS auto-repeats a held key while the macro runs
                        ops.push(Op::Repeat(*r.pick(&down)));
                        ops.push(Op::Gap(r.range(0, 3) as u32));
                    }
                    let can: Vec<u16> = [b, c].iter().copied().filter(|k| !down.contains(k)).collect();
                    if !can.is_empty() && (down.is_empty() || r.chance(500)) {
                        let k = *r.pick(&can);
                        down.push(k);
                        ops.push(Op::Press(k));
                    } else {
                        let i = r.below(down.len() as u64) as usize;
                        ops.push(Op::Release(down.remove(i)));
                    }
                }
                ops.push(Op::Gap(r.range(100, 400) as u32));
                ops.push(Op::Release(mk[0]));
                for k in down {
                    ops.push(Op::Release(k));
                }
            }
            "concurrent" | "overflow" => {
                for k in &mk {
                    ops.push(Op::Press(*k));
                    ops.push(Op::Gap(r.range(0, 3) as u32));
                }
                ops.push(Op::Gap(r.range(200, 500) as u32));
                for k in &mk {
                    ops.push(Op::Release(*k));
                }
            }
            _ => {
                ops.push(Op::Press(mk[0]));
                ops.push(Op::Gap(r.range(0, 3) as u32));
                ops.push(Op::Release(mk[0]));
                ops.push(Op::Gap(r.range(0, 12) as u32));
                ops.push(Op::Press(b));
                ops.push(Op::Gap(3));
                ops.push(Op::Release(b));
            }
        }
        ops.push(Op::Gap(600));
        case.ops = ops;
        case.set("pop", pop);
        case.set("variants", variants.join(","));
        case.set("min_ops", 0);
        case.set("min_cfg", 0);
        case
    }

    fn check(&self, case: &Case, want_sample: bool) -> RunOut {
        if !history_consistent(&case.ops) {
            return RunOut::skip("history-not-consistent");
        }
        let mut st = match Stepper::new_filtered(&case.cfg, &case.files, Mode::Ticking) {
            Ok(s) => s,
            Err(e) => return RunOut::skip(if e.contains("macro") { "parser-rejected-macro" } else { "parser-rejected" }),
        };
        st.track_custom = true;
        st.run_ops(&case.ops);
        st.gap(400);
        st.finish();
        let outs = st.trace.outs.clone();
        let mut o = RunOut::pass();
        o.sim_ms = st.trace.sim_ms;
        probes_into(&mut o, &st.probes, &st.trace);
        o.count(&format!("pop.{}", case.param("pop").unwrap_or("single")), 1);
        let collided = st.probes.custom_events_collided > 0;
        let variants: Vec<String> = case.param("variants").unwrap_or("").split(',').map(|s| s.to_string()).collect();
        let mut sig = fnv(0, case.cfg.as_bytes());
        for op in &case.ops {
            sig = fnv(sig, op.short().as_bytes());
        }
        o.sig = sig;
        o.nontrivial = !outs.is_empty();
        let pop = case.param("pop").unwrap_or("single").to_string();
        if pop == "repeat-pair" {
            let delays: Vec<u64> = case.param("delays").unwrap_or("").split(',').filter_map(|x| x.parse().ok()).collect();
            let names = ["a", "d", "e"];
            let marks = ["X", "Y", "Z"];
            let d = st.down_set();
            if !d.is_empty() {
                o.set_fail("C08:keys-down-after-macro-end", format!("still down: {:?}: {}", d.keys, outs_short(&outs)), vec![]);
            }
            let mut tm = 0u64;
            let mut rel: Vec<Option<u64>> = vec![None; delays.len()];
            let mut prs: Vec<Option<u64>> = vec![None; delays.len()];
            for op in &case.ops {
                match op {
                    Op::Gap(n) => tm += *n as u64,
                    Op::Press(c) => {
                        if let Some(i) = names.iter().take(delays.len()).position(|n| oscode_of(n) == *c) {
                            prs[i] = Some(tm);
                        }
                    }
                    Op::Release(c) => {
                        if let Some(i) = names.iter().take(delays.len()).position(|n| oscode_of(n) == *c) {
                            rel[i] = Some(tm);
                        }
                    }
                    _ => {}
                }
            }
            for i in 0..delays.len() {
                let (Some(p0), Some(r0)) = (prs[i], rel[i]) else { continue };
                let presses: Vec<u64> = outs.iter().filter(|e| e.kind == OutKind::Press && e.key == marks[i]).map(|e| e.t).collect();
                // (only the most recently pressed repeating macro restarts while several are held:
                // that is how the engine picks the macro to restart; not judged)
                let _ = p0;
                if presses.is_empty() && !o.failed() {
                    o.set_fail("C08:macro-output-differs-from-its-list", format!("(macro-repeat {} {}) was pressed at {p0} and never typed {}: {}", marks[i].to_lowercase(), delays[i], marks[i], outs_short(&outs)), vec![]);
                }
                // no new iteration starts after its key is up (one may be in progress)
                let limit = r0 + delays[i] + 6;
                if let Some(late) = presses.iter().find(|t| **t > limit) {
                    if !o.failed() {
                        o.set_fail("C08:repeat-restarted-after-release", format!("(macro-repeat {} {}): key released at {r0}, {} typed again at {late}: {}", marks[i].to_lowercase(), delays[i], marks[i], outs_short(&outs)), vec![]);
                    }
                }
            }
            if want_sample {
                o.sample = Some(sample_json(case, &outs, json!({"pop": pop})));
            }
            return o;
        }
        if pop == "vkey-macro" {
            let d = st.down_set();
            if !d.is_empty() {
                o.set_fail("C08:keys-down-after-macro-end", format!("still down: {:?}: {}", d.keys, outs_short(&outs)), vec![]);
                return o;
            }
            let typed: Vec<&str> = outs.iter().filter(|e| e.kind == OutKind::Press && matches!(e.key.as_str(), "P" | "Q" | "R")).map(|e| e.key.as_str()).collect();
            if typed != ["P", "Q", "R"] {
                o.set_fail("C08:macro-output-differs-from-its-list", format!("the virtual key's macro (p 20 q 20 r) typed {typed:?}: ops {} :: {}", ops_short(&case.ops), outs_short(&outs)), vec![]);
            }
            return o;
        }
        if pop == "shared-mod" {
            let m = case.param("mod_out").unwrap_or("LShift").to_string();
            let d = st.down_set();
            if !d.is_empty() {
                o.set_fail("C08:keys-down-after-macro-end", format!("still down: {:?}: {}", d.keys, outs_short(&outs)), vec![]);
                return o;
            }
            // only the first run of a repeating macro is judged (the repeat stops with the key)
            let mut ds = DownSet::default();
            let mut seen_x = false;
            let mut seen_y = false;
            for e in &outs {
                if e.kind == OutKind::Press && (e.key == "X" || e.key == "Y") && !ds.keys.contains(&m) {
                    o.set_fail(
                        "C08:macro-group-lost-its-modifier",
                        format!("{} of the group {m}-(x .. y) was pressed while {m} is up at the OS (the user released the physical {m} key, which is not the macro's hold): ops {} :: {}", e.key, ops_short(&case.ops), outs_short(&outs)),
                        vec![],
                    );
                    return o;
                }
                if e.kind == OutKind::Press && e.key == "X" {
                    seen_x = true;
                }
                if e.kind == OutKind::Press && e.key == "Y" {
                    seen_y = true;
                }
                ds.apply(e);
            }
            if !(seen_x && seen_y) {
                o.set_fail("C08:macro-output-differs-from-its-list", format!("x and y of the group were not both typed: {}", outs_short(&outs)), vec![]);
            }
            return o;
        }
        // end state: always
        let d = st.down_set();
        if !d.is_empty() {
            let tags = if st.probes.max_active_sequences >= 4 && pop == "overflow" { vec!["more-than-4-concurrent-macros".to_string()] } else { vec![] };
            o.set_fail("C08:keys-down-after-macro-end", format!("still down: {:?}: {}", d.keys, outs_short(&outs)), tags);
        }
        if pop == "overflow" {
            if want_sample {
                o.sample = Some(sample_json(case, &outs, json!({"pop": pop})));
            }
            return o;
        }
        // expected lists from the config text
        let forms = match parse_top(&case.cfg) {
            Some(f) => f,
            None => return o,
        };
        let layer = forms.iter().find(|f| f.head() == Some("deflayer")).and_then(|f| f.list()).map(|v| v[2..].to_vec()).unwrap_or_default();
        let names = ["a", "d", "e", "f", "g", "h"];
        // arrival times
        let mut tm = 0u64;
        let mut arr: Vec<(u64, Op)> = vec![];
        for op in &case.ops {
            match op {
                Op::Gap(n) => tm += *n as u64,
                _ => arr.push((tm, op.clone())),
            }
        }
        for (mi, v) in variants.iter().enumerate() {
            let Some(ac) = layer.get(mi).and_then(|x| x.list()) else { continue };
            let mut exp: Vec<Step> = vec![];
            flatten(&ac[1..], MODS_OF[mi], &mut exp);
            // alphabet of this macro
            let mut alpha: Vec<String> = LETTERS_OF[mi].iter().map(|k| disp(k)).collect();
            alpha.extend(MODS_OF[mi].iter().map(|m| disp(m.1)));
            let proj: Vec<&OutEv> = outs.iter().filter(|e| (matches!(e.kind, OutKind::Press | OutKind::Release) && alpha.contains(&e.key)) || (e.kind == OutKind::Unicode && e.key == UNI_OF[mi])).collect();
            let exp_events: Vec<&Step> = exp.iter().filter(|s| !matches!(s, Step::Delay(_))).collect();
            let has_uni = exp_events.iter().any(|s| matches!(s, Step::Uni(_)));
            let consecutive_uni = exp_events.windows(2).any(|w| matches!(w[0], Step::Uni(_)) && matches!(w[1], Step::Uni(_)));
            let uni_after_key_same_tick = proj.windows(2).any(|w| w[0].t == w[1].t && w[1].kind == OutKind::Unicode && w[0].kind != OutKind::Unicode);
            // other sources of custom events that can occupy the tick of this macro's custom step:
            // the cancel variants' own custom action, other macros' custom steps
            let other_custom_sources = case.cfg.contains("cancel") || case.cfg.matches("(unicode").count() > exp_events.iter().filter(|s| matches!(s, Step::Uni(_))).count();
            let anomaly_tags: Vec<String> = if has_uni && (consecutive_uni || uni_after_key_same_tick || collided || other_custom_sources) { vec!["custom-step-overtaken".to_string()] } else { vec![] };
            let matches_step = |e: &OutEv, s: &Step| -> bool {
                match s {
                    Step::Press(k) => e.kind == OutKind::Press && e.key == *k,
                    Step::Release(k) => e.kind == OutKind::Release && e.key == *k,
                    Step::Uni(c) => e.kind == OutKind::Unicode && e.key == *c,
                    Step::Delay(_) => false,
                }
            };
            let key = oscode_of(names[mi]);
            let t_press = arr.iter().find(|(_, op)| matches!(op, Op::Press(c) if *c == key)).map(|x| x.0).unwrap_or(0);
            let t_release = arr.iter().find(|(_, op)| matches!(op, Op::Release(c) if *c == key)).map(|x| x.0).unwrap_or(u64::MAX);
            let repeat = v.contains("repeat");
            let rel_cancel = v.contains("release-cancel");
            let press_cancel = v.contains("cancel-on-press");
            let other_press_t = arr.iter().find(|(t, op)| *t >= t_press && matches!(op, Op::Press(c) if *c != key)).map(|x| x.0);
            // duration of one iteration: one tick per event + delays
            let one_iter: u64 = exp.iter().map(|s| if let Step::Delay(dl) = s { (*dl).max(1) } else { 1 }).sum::<u64>() + 2;
            // Was this activation possibly cut short?
            // releasing ANY release-cancel macro key cancels all active macros (documented)
            let any_cancelling_release = variants.iter().enumerate().any(|(oi, ov)| {
                ov.contains("release-cancel") && {
                    let ok = oscode_of(names[oi]);
                    arr.iter().any(|(t, op)| matches!(op, Op::Release(c) if *c == ok) && *t >= t_press && *t < t_press + one_iter + 2)
                }
            });
            let cut_by_release = (rel_cancel && t_release < t_press + one_iter + 2) || any_cancelling_release;
            let cut_by_press = press_cancel && other_press_t.map(|t| t < t_press + one_iter + 8).unwrap_or(false);
            if exp_events.is_empty() {
                continue;
            }
            if !repeat && !cut_by_release && !cut_by_press {
                // exactly the list, once
                if proj.len() != exp_events.len() || !proj.iter().zip(exp_events.iter()).all(|(e, s)| matches_step(e, s)) {
                    o.set_fail(
                        "C08:macro-output-differs-from-its-list",
                        format!("macro #{mi} ({v}) body {}: expected {:?}, got {}", layer[mi].to_text(), exp_events, outs_short(&proj.iter().map(|e| (*e).clone()).collect::<Vec<_>>())),
                        anomaly_tags.clone(),
                    );
                }
            } else {
                // a whole number of iterations, possibly followed by a cut iteration: prefix + releases
                let n = exp_events.len();
                let mut i = 0;
                let mut iters = 0;
                while i + n <= proj.len() && proj[i..i + n].iter().zip(exp_events.iter()).all(|(e, s)| matches_step(e, s)) {
                    i += n;
                    iters += 1;
                }
                // remainder: prefix of the list, then only releases of keys pressed in that prefix
                let rem = &proj[i..];
                let mut k = 0;
                while k < rem.len() && k < n && matches_step(rem[k], exp_events[k]) {
                    k += 1;
                }
                let tail = &rem[k..];
                let pressed_in_prefix: Vec<&String> = exp_events[..k].iter().filter_map(|s| if let Step::Press(x) = s { Some(x) } else { None }).collect();
                let tail_ok = tail.iter().all(|e| e.kind == OutKind::Release && pressed_in_prefix.contains(&&e.key));
                if !tail_ok {
                    // the same steps, with a custom (unicode) step overtaken by its neighbour?
                    let tags = anomaly_tags.clone();
                    o.set_fail(
                        "C08:macro-output-differs-from-its-list",
                        format!("macro #{mi} ({v}) body {}: after {iters} full iterations and a prefix of {k} steps, unexpected events: {}", layer[mi].to_text(), outs_short(&tail.iter().map(|e| (*e).clone()).collect::<Vec<_>>())),
                        tags,
                    );
                }
                if !repeat && iters > 1 {
                    o.set_fail("C08:non-repeating-macro-repeated", format!("macro #{mi} ({v}) played {iters} times: {}", outs_short(&outs)), anomaly_tags.clone());
                }
                if iters == 0 && k == 0 && !(cut_by_release || cut_by_press) {
                    o.set_fail("C08:macro-did-not-play", format!("macro #{mi} ({v}) produced nothing: {}", outs_short(&outs)), anomaly_tags.clone());
                }
                // a repeating macro starts a new iteration only while its key is down
                if repeat && !o.failed() {
                    // start tick of each iteration = tick of its first event
                    let lead: u64 = exp.iter().take_while(|s| matches!(s, Step::Delay(_))).map(|s| if let Step::Delay(dl) = s { *dl } else { 0 }).sum();
                    for it in 1..iters {
                        let start = proj[it * n].t.saturating_sub(lead + 1);
                        if start > t_release + 2 {
                            o.set_fail("C08:repeat-restarted-after-release", format!("macro #{mi} ({v}): iteration {} started at {start}, key was released at {t_release}: {}", it + 1, outs_short(&outs)), anomaly_tags.clone());
                        }
                    }
                    if i < proj.len() && k > 0 && proj[i].t.saturating_sub(lead + 1) > t_release + 2 {
                        o.set_fail("C08:repeat-restarted-after-release", format!("macro #{mi} ({v}): a new iteration started at {} after the release at {t_release}: {}", proj[i].t, outs_short(&outs)), anomaly_tags.clone());
                    }
                }
                // cancellation: nothing of this macro down within 2 ms of the cancelling event
                if (cut_by_release && k > 0) || (cut_by_press && k > 0) {
                    // (events are taken from the queue one per tick in arrival order: several events of
                    // one millisecond are processed in the following ticks, the release among them)
                    let t_release_processed = {
                        let mut prev = 0u64;
                        let mut found = t_release;
                        for (at, op) in arr.iter() {
                            let p = (*at + 1).max(prev + 1);
                            prev = p;
                            if matches!(op, Op::Release(c) if *c == key) {
                                found = p.saturating_sub(1).max(t_release);
                                break;
                            }
                        }
                        found
                    };
                    let t_cancel = if cut_by_release { t_release_processed } else { other_press_t.unwrap_or(0) };
                    if let Some(last) = proj.last() {
                        if last.t > t_cancel + 3 && iters == 0 && k < n {
                            o.set_fail("C08:cancelled-macro-keys-released-late", format!("macro #{mi} ({v}) cancelled at {t_cancel}, last event at {}: {}", last.t, outs_short(&outs)), anomaly_tags.clone());
                        }
                    }
                }
            }
            // timing: no two steps of one activation in the same ms; delays respected
            if !o.failed() && !repeat && !cut_by_release && !cut_by_press {
                let mut pi = 0;
                let mut pending_delay = 0u64;
                let mut prev_t: Option<u64> = None;
                for s in &exp {
                    match s {
                        Step::Delay(dl) => pending_delay += *dl,
                        _ => {
                            let e = proj[pi];
                            if let Some(pt) = prev_t {
                                if e.t <= pt {
                                    o.set_fail("C08:two-steps-in-one-ms", format!("macro #{mi}: steps at {pt} and {}: {}", e.t, outs_short(&outs)), anomaly_tags.clone());
                                }
                                if e.t < pt + pending_delay {
                                    o.set_fail("C08:delay-not-respected", format!("macro #{mi}: delay {pending_delay} between steps at {pt} and {}: {}", e.t, outs_short(&outs)), anomaly_tags.clone());
                                }
                            }
                            prev_t = Some(e.t);
                            pending_delay = 0;
                            pi += 1;
                        }
                    }
                }
            }
        }
        // plain keys unaffected
        if pop == "interleaved" && !o.failed() {
            for (k, m) in [("b", "Kb1"), ("c", "Kb2")] {
                let n_in = case.ops.iter().filter(|op| matches!(op, Op::Press(c) if *c == oscode_of(k))).count();
                let n_out = outs.iter().filter(|e| e.kind == OutKind::Press && e.key == m).count();
                if n_in != n_out {
                    o.set_fail("C08:plain-key-lost-during-macro", format!("{k}: {n_in} presses in, {n_out} out: {}", outs_short(&outs)), vec![]);
                }
            }
        }
        if want_sample {
            o.sample = Some(sample_json(case, &outs, json!({"pop": pop, "variants": variants})));
        }
        o
    }
    fn assumptions(&self) -> Vec<String> {
        vec![
            "each macro uses its own disjoint set of letters, modifiers and unicode char so that 'projected onto the macro's keys' is well defined".into(),
            "with more than 4 concurrent macros only the end-state clause is asserted (the statement's 'always end with keys released')".into(),
        ]
    }
}
