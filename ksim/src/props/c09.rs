//! C09 — input chords fire for exactly the pressed key set, in any press order.

use super::common::*;
use super::*;
use crate::exec_a::*;
use crate::gen::*;
use crate::ops::*;
use crate::trace::*;
use serde_json::json;

pub struct C09;

const PK: &[&str] = &["a", "b", "c", "d", "e"];
const SINGLE_M: &[&str] = &["x", "y", "z", "w", "v"];
const CHORD_M: &[&str] = &["p", "q", "r", "s", "t", "u", "n", "o"];

fn up(s: &str) -> String {
    code_name(oscode_of(s))
}

/// (key set as sorted indices into PK, marker)
fn parse_table(case: &Case) -> Vec<(Vec<usize>, String)> {
    // stored in params as "0,1:p;0,1,2:q"
    let mut v = vec![];
    for ent in case.param("table").unwrap_or("").split(';').filter(|s| !s.is_empty()) {
        let (ks, m) = ent.split_once(':').unwrap();
        let keys: Vec<usize> = ks.split(',').filter_map(|x| x.parse().ok()).collect();
        v.push((keys, m.to_string()));
    }
    v
}

impl Prop for C09 {
    fn id(&self) -> &'static str {
        "C09"
    }
    fn rule_text(&self) -> String {
        "case = defchords group or defchordsv2 table over 2-5 participating keys with overlapping chords, sub-chords, undefined supersets, (v2) both release behaviours, per-chord timeouts (T and 4T in one table) and a disabled layer; every chord and every single key outputs its own marker (v2: optionally through a one-key macro, which makes a chord that is performed twice visible). Populations: 'target' (one key set pressed in a sampled permutation with inter-press gaps below / at / above the timeout, released in a sampled permutation), 'random' (mixed with a non-chord key). Oracle: defined chord completed within the timeout => its marker exactly once and no participant's single marker; released no later than shortly after the last participant's release; every pressed key is accounted for by exactly one marker whose key set contains it (nothing swallowed, nothing doubled), in press order. non-trivial = a multi-key chord marker was output; distinct = config x schedule hash.".into()
    }
    fn runs(&self, tier: Tier) -> u64 {
        match tier {
            Tier::Quick => 600_000,
            Tier::Thorough => 25_000_000,
        }
    }
    fn gen(&self, seed: u64, _tier: Tier) -> Case {
        let mut r = Rng::new(seed);
        if r.chance(40) {
            // 'many-overlaps' population (chords v2): the two pressed keys are also part of 13-19
            // larger chords (more than the 16 candidates the matcher tracks at once); the chord
            // of exactly these two keys, defined anywhere among them, must still be the one that
            // is performed when the timeout or a release decides
            let t = 60u64;
            let beh = *r.pick(&["first-release", "all-released"]);
            let thirds = ["c", "d", "e", "f", "g", "h", "i", "j", "k", "l", "m", "n", "o", "r", "s", "t", "u", "v", "w"];
            let n = r.range(13, thirds.len() as u64) as usize;
            let idx = r.range(0, n as u64) as usize;
            let mut ents: Vec<String> = thirds[..n].iter().map(|k| format!("(a b {k}) q {t} {beh} ()")).collect();
            ents.insert(idx, format!("(a b) p {t} {beh} ()"));
            let mut case = Case { prop: "C09".into(), seed, ..Default::default() };
            case.cfg = format!(
                "(defcfg concurrent-tap-hold yes chords-v2-min-idle 5)\n(defsrc a b {0})\n(deflayer l0 x y {0})\n(defchordsv2 {1})\n",
                thirds.join(" "),
                ents.join(" ")
            );
            let (ka, kb) = (oscode_of("a"), oscode_of("b"));
            let (first, second) = if r.chance(500) { (ka, kb) } else { (kb, ka) };
            let hold = if r.chance(500) { t + 30 + r.range(0, 100) } else { r.range(5, t - 15) };
            let mut ops = vec![Op::Gap(2), Op::Press(first), Op::Gap(r.range(1, 8) as u32), Op::Press(second), Op::Gap(hold as u32)];
            let (r1, r2) = if r.chance(500) { (first, second) } else { (second, first) };
            ops.push(Op::Release(r1));
            ops.push(Op::Gap(r.range(20, 60) as u32));
            ops.push(Op::Release(r2));
            ops.push(Op::Gap(300));
            case.ops = ops;
            case.set("pop", "stale-release");
            case.set("shape", "many-overlaps");
            case.set("beh", beh);
            case.set("min_ops", 0);
            case.set("min_cfg", 0);
            case.set("min_gaps", 0);
            return case;
        }
        if r.chance(40) {
            // 'held-chord' population (chords v2): a chord is held while other things happen that
            // must not release it: (unrelated-tap) a non-participant is tapped within one
            // millisecond while the chord is still ambiguous with a larger one; (other-chords) 20-30
            // activations of another chord (the virtual coordinates chords are activated at are
            // handed out round-robin and must not be handed out twice at the same time)
            let t = 60u64;
            let beh = *r.pick(&["first-release", "all-released"]);
            let beh2 = *r.pick(&["first-release", "all-released"]);
            // (after-unrelated) an unrelated key is released in the very millisecond in which the
            // first chord key goes down: the chord, complete and not part of any larger one, must still
            // be performed when its last key arrives, not when the timeout runs out
            let shape = *r.pick(&["unrelated-tap", "other-chords", "after-unrelated"]);
            let mut case = Case { prop: "C09".into(), seed, ..Default::default() };
            case.cfg = format!(
                "(defcfg concurrent-tap-hold yes chords-v2-min-idle 5)\n(defsrc a b c d f)\n(deflayer l0 x y c d f)\n(defchordsv2 (a b) p {t} {beh} () {})\n",
                if shape == "unrelated-tap" { format!("(a b c) q {} {beh2} ()", t + 50) } else { format!("(c d) q {t} {beh2} ()") }
            );
            let k = |n: &str| oscode_of(n);
            let (first, second) = if r.chance(500) { (k("a"), k("b")) } else { (k("b"), k("a")) };
            let mut ops = vec![Op::Gap(2)];
            if shape == "after-unrelated" {
                ops.push(Op::Press(k("f")));
                ops.push(Op::Gap(r.range(80, 300) as u32));
                ops.push(Op::Release(k("f")));
            }
            ops.push(Op::Press(first));
            let g0 = if shape == "after-unrelated" { r.range(1, 5) as u32 } else { r.range(0, 5) as u32 };
            if g0 > 0 {
                ops.push(Op::Gap(g0));
            }
            ops.push(Op::Press(second));
            if shape == "unrelated-tap" {
                ops.push(Op::Gap(r.range(1, t - 20) as u32));
                ops.push(Op::Press(k("f")));
                let g = r.range(0, 2) as u32;
                if g > 0 {
                    ops.push(Op::Gap(g));
                }
                ops.push(Op::Release(k("f")));
                ops.push(Op::Gap(r.range(80, 150) as u32));
            } else if shape == "after-unrelated" {
                case.set("second_press_at", ops.iter().map(|o| if let Op::Gap(g) = o { *g as u64 } else { 0 }).sum::<u64>());
                ops.push(Op::Gap(r.range(100, 200) as u32));
            } else {
                ops.push(Op::Gap(t as u32 + 20));
                for _ in 0..r.range(20, 30) {
                    ops.push(Op::Press(k("c")));
                    if r.chance(300) {
                        ops.push(Op::Gap(1));
                    }
                    ops.push(Op::Press(k("d")));
                    ops.push(Op::Gap(12));
                    ops.push(Op::Release(k("c")));
                    ops.push(Op::Release(k("d")));
                    ops.push(Op::Gap(12));
                }
                ops.push(Op::Gap(40));
            }
            let (r1, r2) = if r.chance(500) { (first, second) } else { (second, first) };
            ops.push(Op::Release(r1));
            ops.push(Op::Gap(r.range(20, 60) as u32));
            ops.push(Op::Release(r2));
            ops.push(Op::Gap(300));
            case.ops = ops;
            case.set("pop", "stale-release");
            case.set("shape", shape);
            case.set("beh", beh);
            case.set("min_ops", 0);
            case.set("min_cfg", 0);
            case.set("min_gaps", 0);
            return case;
        }
        if r.chance(60) {
            // 'stale-release' population (chords v2): one chord key is already held (it came out
            // singly long ago), the other key goes down, the first key is released and pressed
            // again: the new press completes the chord, and the queued release of the OLD press
            // must not count as a release of the chord's key
            let t = 60u64;
            let beh = *r.pick(&["first-release", "all-released"]);
            let mut case = Case { prop: "C09".into(), seed, ..Default::default() };
            case.cfg = format!(
                "(defcfg concurrent-tap-hold yes chords-v2-min-idle 5)\n(defsrc a b)\n(deflayer l0 x y)\n(defchordsv2 (a b) p {t} {beh} ())\n"
            );
            let (ka, kb) = (oscode_of("a"), oscode_of("b"));
            let (first, second) = if r.chance(500) { (ka, kb) } else { (kb, ka) };
            let mut ops = vec![Op::Gap(2), Op::Press(first), Op::Gap((t + 20 + r.range(0, 200)) as u32), Op::Press(second), Op::Gap(r.range(2, 6) as u32), Op::Release(first), Op::Gap(r.range(2, 5) as u32), Op::Press(first)];
            ops.push(Op::Gap(r.range(80, 150) as u32));
            let (r1, r2) = if r.chance(500) { (first, second) } else { (second, first) };
            ops.push(Op::Release(r1));
            ops.push(Op::Gap(r.range(20, 60) as u32));
            ops.push(Op::Release(r2));
            ops.push(Op::Gap(300));
            case.ops = ops;
            case.set("pop", "stale-release");
            case.set("beh", beh);
            case.set("min_ops", 0);
            case.set("min_cfg", 0);
            case.set("min_gaps", 0);
            return case;
        }
        let v2 = r.chance(500);
        let nk = r.range(2, 5) as usize;
        let t = *r.pick(&[5u64, 20, 60]);
        // chord table: random subsets of size >= 2
        let mut table: Vec<(Vec<usize>, String)> = vec![];
        let nchords = r.range(1, 5) as usize;
        for ci in 0..nchords {
            let mut ks: Vec<usize> = (0..nk).collect();
            r.shuffle(&mut ks);
            ks.truncate(r.range(2, nk as u64) as usize);
            ks.sort();
            if table.iter().any(|(k, _)| *k == ks) {
                continue;
            }
            table.push((ks, CHORD_M[ci].to_string()));
        }
        let mut case = Case { prop: "C09".into(), seed, ..Default::default() };
        let keys = &PK[..nk];
        let mut cfg = String::new();
        let release_beh: Vec<&str> = table.iter().map(|_| *r.pick(&["first-release", "all-released"])).collect();
        let use_disabled = v2 && r.chance(300);
        // a key that taps a virtual key whose index equals the key code of a chord participant:
        // virtual keys live in another row and must never be mistaken for the participant
        let vk_collide = v2 && r.chance(200);
        if v2 {
            cfg.push_str(&format!("(defcfg concurrent-tap-hold yes chords-v2-min-idle {})\n", *r.pick(&[5u64, 5, 30])));
            cfg.push_str(&format!("(defsrc {} f g h)\n", keys.join(" ")));
            // (tapped at once, or pressed with the key and released with it: the release then comes
            // long after the window in which chords ignore rejected keys)
            let h_act = if vk_collide {
                let n = oscode_of(*r.pick(keys));
                if r.chance(500) { format!("(on-press tap-vkey v{n})") } else { format!("(multi (on-press press-vkey v{n}) (on-release release-vkey v{n}))") }
            } else {
                "XX".to_string()
            };
            cfg.push_str(&format!("(deflayer l0 {} 1 (layer-while-held l1) {h_act})\n", SINGLE_M[..nk].join(" ")));
            cfg.push_str(&format!("(deflayer l1 {} 1 _ _)\n", SINGLE_M[..nk].join(" ")));
            if vk_collide {
                cfg.push_str(&format!("(defvirtualkeys {})\n", (0..=48).map(|i| format!("v{i} XX")).collect::<Vec<_>>().join(" ")));
            }
            let mut ents: Vec<String> = vec![];
            // each chord separately is disabled on l1 or not (a disabled chord next to an enabled
            // superset / subset of it is the interesting case)
            let disabled: Vec<bool> = table.iter().map(|_| use_disabled && r.chance(600)).collect();
            // chords of one table may have different timeouts: the one that applies at any moment
            // is the shortest among the chords that can still be completed
            let mixed = r.chance(400);
            // the chord action may be a macro that taps the marker: a chord that is performed twice
            // is invisible with a plain key (one key, pressed once) but types the macro twice
            let macro_actions = r.chance(300);
            case.set("macro_actions", macro_actions as u8);
            let timeouts: Vec<u64> = table.iter().map(|_| if mixed && r.chance(500) { 4 * t } else { t }).collect();
            for (i, (ks, m)) in table.iter().enumerate() {
                let names: Vec<&str> = ks.iter().map(|k| PK[*k]).collect();
                let act = if macro_actions { format!("(macro {m})") } else { m.to_string() };
                ents.push(format!("({}) {act} {} {} ({})", names.join(" "), timeouts[i], release_beh[i], if disabled[i] { "l1" } else { "" }));
            }
            case.set("timeouts", timeouts.iter().map(|x| x.to_string()).collect::<Vec<_>>().join(","));
            case.set("disabled", disabled.iter().map(|d| if *d { "1" } else { "0" }).collect::<Vec<_>>().join(","));
            cfg.push_str(&format!("(defchordsv2 {})\n", ents.join(" ")));
        } else {
            cfg.push_str(&format!("(defsrc {} f)\n", keys.join(" ")));
            let acts: Vec<String> = keys.iter().map(|k| format!("(chord g {k})")).collect();
            cfg.push_str(&format!("(deflayer l0 {} 1)\n", acts.join(" ")));
            let mut ents: Vec<String> = vec![];
            for (i, k) in keys.iter().enumerate() {
                ents.push(format!("({k}) {}", SINGLE_M[i]));
            }
            for (ks, m) in &table {
                let names: Vec<&str> = ks.iter().map(|k| PK[*k]).collect();
                ents.push(format!("({}) {m}", names.join(" ")));
            }
            cfg.push_str(&format!("(defchords g {t} {})\n", ents.join(" ")));
        }
        case.cfg = cfg;
        case.set("v2", v2 as u8);
        case.set("t", t);
        case.set("nk", nk);
        case.set("table", table.iter().map(|(ks, m)| format!("{}:{m}", ks.iter().map(|k| k.to_string()).collect::<Vec<_>>().join(","))).collect::<Vec<_>>().join(";"));
        case.set("release_beh", release_beh.join(","));
        let pop = *r.pick(&["target", "target", "target", "random"]);
        case.set("pop", pop);
        let codes: Vec<u16> = keys.iter().map(|k| oscode_of(k)).collect();
        let f = oscode_of("f");
        let mut ops = vec![];
        if pop == "target" {
            // the key set to press
            let mut set: Vec<usize> = match r.below(4) {
                0 | 1 if !table.is_empty() => r.pick(&table).0.clone(),
                _ => {
                    let mut ks: Vec<usize> = (0..nk).collect();
                    r.shuffle(&mut ks);
                    ks.truncate(r.range(1, nk as u64) as usize);
                    ks
                }
            };
            r.shuffle(&mut set);
            let on_disabled = use_disabled && r.chance(500);
            if on_disabled {
                ops.push(Op::Press(oscode_of("g")));
                ops.push(Op::Gap(40));
                case.set("on_disabled", 1);
            }
            // gap profile
            let profile = *r.pick(&["below", "below", "below", "boundary", "above", "between"]);
            case.set("profile", profile);
            let mut total = 0u64;
            for (i, k) in set.iter().enumerate() {
                if i > 0 {
                    let g = match profile {
                        "below" => r.range(0, ((t.saturating_sub(3)) / (set.len() as u64)).max(0)),
                        "between" => {
                            // the last key arrives after the short timeout but within the long one
                            if i == set.len() - 1 {
                                r.range(t + 3, 4 * t - 3).saturating_sub(total)
                            } else {
                                r.range(0, 2)
                            }
                        }
                        "boundary" => {
                            if i == set.len() - 1 {
                                // total elapsed since first press lands on T-1, T or T+1
                                (t + *r.pick(&[0u64, 1, 2])).saturating_sub(1).saturating_sub(total)
                            } else {
                                0
                            }
                        }
                        _ => {
                            if i == 1 {
                                t + 5 + r.range(0, 10)
                            } else {
                                r.range(0, 3)
                            }
                        }
                    };
                    total += g;
                    if g > 0 {
                        ops.push(Op::Gap(g as u32));
                    }
                }
                ops.push(Op::Press(codes[*k]));
            }
            // optionally an unrelated key is pressed while the chord keys are still pending
            let foreign = r.chance(250);
            if foreign {
                ops.push(Op::Gap(r.range(0, 2) as u32));
                ops.push(Op::Press(f));
                case.set("foreign", 1);
            }
            // held past the timeout, or released early (the chord is then decided by the release)
            let early = r.chance(350);
            let hold = if early { r.range(1, t.saturating_sub(total + 2).max(1).min(12)) } else { 4 * t + 30 + r.range(0, 20) };
            if vk_collide && !early {
                // while the chord is active a non-chord key taps the colliding virtual key
                ops.push(Op::Gap((hold / 2) as u32));
                ops.push(Op::Press(oscode_of("h")));
                ops.push(Op::Gap(*r.pick(&[2u32, 2, 12, 40])));
                ops.push(Op::Release(oscode_of("h")));
                ops.push(Op::Gap((hold / 2) as u32));
                case.set("vk_collide", 1);
            } else {
                ops.push(Op::Gap(hold as u32));
            }
            // the layer on which some chords are disabled becomes active only now, while the chord is
            // held: its keys are released there (a disabled chord cannot be formed, but one that is
            // active is still released by its keys)
            let late_disabled = use_disabled && !on_disabled && !early && r.chance(400);
            if late_disabled {
                ops.push(Op::Press(oscode_of("g")));
                ops.push(Op::Gap(45));
                case.set("late_disabled", 1);
            }
            let mut rel = set.clone();
            r.shuffle(&mut rel);
            let long_between = r.chance(400);
            for k in rel {
                ops.push(Op::Release(codes[k]));
                ops.push(Op::Gap(if long_between { r.range(20, 60) + t } else { r.range(0, 8) } as u32));
            }
            if foreign {
                ops.push(Op::Release(f));
                ops.push(Op::Gap(3));
            }
            if on_disabled || late_disabled {
                ops.push(Op::Gap(20));
                ops.push(Op::Release(oscode_of("g")));
            }
            case.set("min_ops", 0);
            case.set("min_cfg", 0);
        } else {
            let mut hk = codes.clone();
            hk.push(f);
            let ho = HistOpts { keys: hk, max_events: 14, consistent: true, timeouts: vec![t], long_gap_permille: 0, ..Default::default() };
            ops = gen_history(&mut r, &ho);
        }
        ops.push(Op::Gap((8 * t + 200) as u32));
        case.ops = ops;
        case
    }

    fn check(&self, case: &Case, want_sample: bool) -> RunOut {
        if !history_consistent(&case.ops) {
            return RunOut::skip("history-not-consistent");
        }
        let mut st = match Stepper::new_filtered(&case.cfg, &case.files, Mode::Ticking) {
            Ok(s) => s,
            Err(_) => return RunOut::skip("parser-rejected"),
        };
        st.run_ops(&case.ops);
        st.gap(300);
        st.finish();
        let outs = st.trace.outs.clone();
        let mut o = RunOut::pass();
        o.sim_ms = st.trace.sim_ms;
        probes_into(&mut o, &st.probes, &st.trace);
        if case.param("pop") == Some("stale-release") {
            let mut o = RunOut::pass();
            o.sim_ms = st.trace.sim_ms;
            o.count("pop.stale-release", 1);
            let mut sig = fnv(0, case.cfg.as_bytes());
            for op in &case.ops {
                sig = fnv(sig, op.short().as_bytes());
            }
            o.sig = sig;
            let d = st.down_set();
            if !d.is_empty() {
                o.set_fail("C09:stuck-at-end", format!("still down: {:?}: {}", d.keys, outs_short(&outs)), vec![]);
                return o;
            }
            // the last two ops that are releases: the releases of the chord's keys
            let mut tm = 0u64;
            let mut rels: Vec<u64> = vec![];
            for op in &case.ops {
                match op {
                    Op::Gap(n) => tm += *n as u64,
                    Op::Release(_) => rels.push(tm),
                    _ => {}
                }
            }
            let (first_rel, last_rel) = (rels[rels.len() - 2], rels[rels.len() - 1]);
            if let Some(sh) = case.param("shape") {
                o.count(&format!("pop.{sh}"), 1);
            }
            if case.param("shape") == Some("many-overlaps") {
                if let Some(e) = outs.iter().find(|e| e.kind == OutKind::Press && (e.key == "X" || e.key == "Y" || e.key == "Q")) {
                    o.set_fail("C09:defined-chord-did-not-fire-exactly-once", format!("a and b pressed together (a chord of exactly these keys is defined): {} was output: {}", e.key, outs_short(&outs)), vec![]);
                    return o;
                }
            }
            let p_down = outs.iter().find(|e| e.kind == OutKind::Press && e.key == "P").map(|e| e.t);
            if let (Some(at), Some(pd)) = (case.param_u64("second_press_at"), p_down) {
                // chords-v2-min-idle 5 + queue hand-over: a few ticks
                if pd > at + 12 {
                    o.set_fail("C09:complete-chord-performed-late", format!("the chord's last key arrived at {at}, no larger chord can still be completed, P was pressed at {pd}: {}", outs_short(&outs)), vec![]);
                    return o;
                }
            }
            let p_up = outs.iter().filter(|e| e.kind == OutKind::Release && e.key == "P").map(|e| e.t).last();
            o.nontrivial = p_down.is_some();
            match (p_down, p_up) {
                (Some(_), Some(up_t)) => {
                    let beh = case.param("beh").unwrap_or("first-release");
                    let due = if beh == "first-release" { first_rel } else { last_rel };
                    if up_t < due {
                        o.set_fail(
                            if beh == "first-release" { "C09:chord-released-before-any-participant" } else { "C09:all-released-chord-released-early" },
                            format!("{beh} chord P: its keys are released at {first_rel} and {last_rel}, P was released at {up_t}: {}", outs_short(&outs)),
                            vec![],
                        );
                    } else if up_t > due + 12 {
                        o.set_fail("C09:chord-released-late", format!("{beh} chord P released at {up_t}, due at {due}: {}", outs_short(&outs)), vec![]);
                    }
                }
                (None, _) => {
                    o.set_fail("C09:defined-chord-did-not-fire-exactly-once", format!("a held, b pressed and the first key pressed again within the timeout: chord P did not fire: {}", outs_short(&outs)), vec![]);
                }
                (Some(_), None) => {}
            }
            if want_sample {
                o.sample = Some(sample_json(case, &outs, json!({"pop": "stale-release"})));
            }
            return o;
        }
        let v2 = case.param_u64("v2").unwrap_or(0) == 1;
        let t = case.param_u64("t").unwrap_or(20);
        let nk = case.param_u64("nk").unwrap_or(2) as usize;
        let pop = case.param("pop").unwrap_or("target").to_string();
        let table = parse_table(case);
        o.count(if v2 { "kind.defchordsv2" } else { "kind.defchords" }, 1);
        o.count(&format!("pop.{pop}"), 1);
        if let Some(p) = case.param("profile") {
            o.count(&format!("profile.{p}"), 1);
        }
        let mut sig = fnv(0, case.cfg.as_bytes());
        for op in &case.ops {
            sig = fnv(sig, op.short().as_bytes());
        }
        o.sig = sig;
        // marker -> key set
        let mut marker_set: Vec<(String, Vec<usize>)> = vec![];
        for i in 0..nk {
            marker_set.push((up(SINGLE_M[i]), vec![i]));
        }
        for (ks, m) in &table {
            marker_set.push((up(m), ks.clone()));
        }
        let d = st.down_set();
        if !d.is_empty() {
            o.set_fail("C09:stuck-at-end", format!("still down: {:?}: {}", d.keys, outs_short(&outs)), vec![]);
        }
        let marker_presses: Vec<&OutEv> = outs.iter().filter(|e| e.kind == OutKind::Press && marker_set.iter().any(|(m, _)| *m == e.key)).collect();
        let macro_actions = case.param_flag("macro_actions");
        if macro_actions {
            // every marker press has exactly one release (two runs of the same macro at once show
            // as one press and two releases)
            for (m, ks) in marker_set.iter().filter(|(_, ks)| ks.len() >= 2) {
                let np = outs.iter().filter(|e| e.kind == OutKind::Press && e.key == *m).count();
                let nr = outs.iter().filter(|e| e.kind == OutKind::Release && e.key == *m).count();
                if np != nr {
                    o.set_fail("C09:chord-action-performed-twice", format!("chord {ks:?} -> (macro {m}): {np} presses and {nr} releases of {m}: {}", outs_short(&outs)), vec![]);
                }
            }
        }
        o.nontrivial = marker_presses.iter().any(|e| marker_set.iter().any(|(m, ks)| *m == e.key && ks.len() >= 2));
        // arrival times per key
        let codes: Vec<u16> = PK[..nk].iter().map(|k| oscode_of(k)).collect();
        let mut tm = 0u64;
        let mut presses: Vec<(u64, usize)> = vec![];
        let mut releases: Vec<(u64, usize)> = vec![];
        for op in &case.ops {
            match op {
                Op::Gap(n) => tm += *n as u64,
                Op::Press(c) => {
                    if let Some(i) = codes.iter().position(|x| x == c) {
                        presses.push((tm, i));
                    }
                }
                Op::Release(c) => {
                    if let Some(i) = codes.iter().position(|x| x == c) {
                        releases.push((tm, i));
                    }
                }
                _ => {}
            }
        }
        // precondition of the accounting clause: a chord key is not re-pressed within 15 ms of its own
        // release (OS output is a per-ms difference: a release and re-press of the same output key
        // processed in one ms are invisible, which is not what this property is about)
        for (tr, k) in &releases {
            if presses.iter().any(|(tp, k2)| k2 == k && *tp >= *tr && *tp < *tr + 15) {
                return RunOut::skip("chord key re-pressed within 15 ms of its release");
            }
        }
        // ---- accounting invariant: every pressed chord key is covered by exactly one marker press
        let mut covered = vec![0usize; nk];
        for e in &marker_presses {
            if let Some((_, ks)) = marker_set.iter().find(|(m, _)| *m == e.key) {
                for k in ks {
                    covered[*k] += 1;
                }
            }
        }
        let mut pressed = vec![0usize; nk];
        for (_, k) in &presses {
            pressed[*k] += 1;
        }
        if covered != pressed && !o.failed() {
            o.set_fail(
                "C09:keys-swallowed-or-doubled",
                format!(
                    "{} T={t}: presses per key {:?} vs keys accounted for by the output markers {:?} (markers: {:?}): {}",
                    if v2 { "defchordsv2" } else { "defchords" },
                    pressed,
                    covered,
                    marker_presses.iter().map(|e| e.key.clone()).collect::<Vec<_>>(),
                    outs_short(&outs)
                ),
                vec![],
            );
        }
        if pop == "target" && !o.failed() && !presses.is_empty() {
            let first_t = presses[0].0;
            let last_t = presses.last().unwrap().0;
            let mut set: Vec<usize> = presses.iter().map(|p| p.1).collect();
            set.sort();
            let span = last_t - first_t;
            let on_disabled = case.param_flag("on_disabled");
            let defined = table.iter().find(|(ks, _)| *ks == set);
            // within the timeout: v1: < T, v2: <= T (conventions of the pinned tree); T-1..T+1 unjudged
            // per-chord timeouts (defchordsv2): while keys accumulate, the timeout in force is the
            // shortest one among the chords that contain everything pressed so far
            let timeouts: Vec<u64> = {
                let v: Vec<u64> = case.param("timeouts").unwrap_or("").split(',').filter_map(|x| x.parse().ok()).collect();
                if v.len() == table.len() { v } else { table.iter().map(|_| t).collect() }
            };
            let mixed = timeouts.iter().any(|x| *x != t);
            let tmax = timeouts.iter().copied().max().unwrap_or(t).max(t);
            let mut clearly_within = span + 2 <= t;
            if mixed {
                let mut ok = true;
                for i in 1..presses.len() {
                    let prefix: Vec<usize> = presses[..i].iter().map(|p| p.1).collect();
                    let alive_min = table.iter().enumerate().filter(|(_, (ks, _))| prefix.iter().all(|k| ks.contains(k))).map(|(ci, _)| timeouts[ci]).min();
                    match alive_min {
                        Some(m) => ok &= presses[i].0 - first_t + 2 <= m,
                        None => ok = false,
                    }
                }
                // a chord that still has a strict superset in the table waits for it; with mixed
                // timeouts only chords without a superset are judged
                let has_superset = table.iter().any(|(ks, _)| ks.len() > set.len() && set.iter().all(|k| ks.contains(k)));
                clearly_within = ok && !has_superset;
                if clearly_within && span + 2 > t {
                    o.count("probe.chord-completed-after-a-sibling's-shorter-timeout", 1);
                }
            }
            let clearly_outside = span >= tmax + 2;
            if span + 1 >= t && span <= t + 1 {
                o.count("boundary.span-at-timeout", 1);
            }
            let disabled_flags: Vec<bool> = case.param("disabled").unwrap_or("").split(',').map(|x| x == "1").collect();
            let is_disabled = |ks: &Vec<usize>| -> bool { on_disabled && table.iter().position(|(k2, _)| k2 == ks).and_then(|i| disabled_flags.get(i).copied()).unwrap_or(false) };
            let foreign = case.param_flag("foreign");
            // a chord that is disabled on the active layer never fires there, whatever else happens
            if on_disabled && v2 && !o.failed() {
                for (ks, m) in &table {
                    if is_disabled(ks) && marker_presses.iter().any(|e| e.key == up(m)) {
                        o.set_fail("C09:chord-fired-on-disabled-layer", format!("chord {ks:?} -> {} is disabled on the active layer but fired: {}", up(m), outs_short(&outs)), vec![]);
                    }
                }
            }
            if let Some((ks, m)) = defined {
                if clearly_within && !is_disabled(ks) && !foreign && !(on_disabled && table.iter().any(|(k2, _)| is_disabled(k2))) {
                    let want = up(m);
                    let got: Vec<String> = marker_presses.iter().map(|e| e.key.clone()).collect();
                    if got != vec![want.clone()] {
                        o.set_fail(
                            "C09:defined-chord-did-not-fire-exactly-once",
                            format!("{} T={t}: keys {:?} pressed at {:?} (span {span} < T): expected only {want}, got {got:?}: {}", if v2 { "defchordsv2" } else { "defchords" }, ks, presses, outs_short(&outs)),
                            vec![],
                        );
                    } else if !macro_actions {
                        // released no later than shortly after the last participant's release
                        let last_rel = releases.iter().map(|x| x.0).max().unwrap_or(0);
                        let first_rel = releases.iter().map(|x| x.0).min().unwrap_or(0);
                        let m_rel = outs.iter().filter(|e| e.kind == OutKind::Release && e.key == want).map(|e| e.t).next_back().unwrap_or(u64::MAX);
                        let slack = 8 + 2 * set.len() as u64;
                        if m_rel > last_rel + slack {
                            o.set_fail("C09:chord-released-late", format!("chord marker {want} released at {m_rel}, last participant released at {last_rel}: {}", outs_short(&outs)), vec![]);
                        }
                        if !v2 && m_rel < last_rel {
                            // documented release behaviour of defchords for plain-key actions: held
                            // until every key of the chord has been released
                            o.set_fail("C09:v1-chord-released-before-all-participants", format!("defchords chord {want} (keys {ks:?}): last participant released at {last_rel}, marker released at {m_rel}: {}", outs_short(&outs)), vec![]);
                        }
                        if v2 {
                            let idx = table.iter().position(|(k2, _)| k2 == ks).unwrap_or(0);
                            let beh = case.param("release_beh").unwrap_or("").split(',').nth(idx).unwrap_or("").to_string();
                            if beh == "first-release" && m_rel > first_rel + slack {
                                o.set_fail("C09:first-release-chord-released-late", format!("first-release chord {want}: first participant released at {first_rel}, marker released at {m_rel}: {}", outs_short(&outs)), vec![]);
                            }
                            if beh == "all-released" && m_rel < last_rel {
                                o.set_fail("C09:all-released-chord-released-early", format!("all-released chord {want}: last participant released at {last_rel}, marker released at {m_rel}: {}", outs_short(&outs)), vec![]);
                            }
                        }
                    }
                }
            }
            if clearly_outside && presses.len() == 2 && !o.failed() {
                // two keys further apart than the timeout: two single markers in press order
                let want: Vec<String> = presses.iter().map(|p| up(SINGLE_M[p.1])).collect();
                let got: Vec<String> = marker_presses.iter().map(|e| e.key.clone()).collect();
                if got != want {
                    o.set_fail("C09:late-keys-not-delivered-singly-in-order", format!("T={t}: keys pressed {span} ms apart: expected {want:?}, got {got:?}: {}", outs_short(&outs)), vec![]);
                }
            }
            // markers come out in press order of their earliest key
            if !o.failed() {
                let order_of = |m: &str| -> u64 {
                    let ks = &marker_set.iter().find(|(mm, _)| mm == m).unwrap().1;
                    presses.iter().filter(|p| ks.contains(&p.1)).map(|p| p.0).min().unwrap_or(0)
                };
                let seq: Vec<u64> = marker_presses.iter().map(|e| order_of(&e.key)).collect();
                if seq.windows(2).any(|w| w[0] > w[1]) {
                    o.set_fail("C09:markers-out-of-press-order", format!("markers {:?} not in the press order of their keys {:?}: {}", marker_presses.iter().map(|e| e.key.clone()).collect::<Vec<_>>(), presses, outs_short(&outs)), vec![]);
                }
            }
        }
        if want_sample {
            o.sample = Some(sample_json(case, &outs, json!({"v2": v2, "T": t, "pop": pop, "table": case.param("table")})));
        }
        o
    }
    fn assumptions(&self) -> Vec<String> {
        vec![
            "'within its timeout': all keys arrive less than T ms (defchords) / at most T ms (defchordsv2) after the first one; spans of T-1..T+1 are counted but not judged".into(),
            "every participating key has a single-key action with its own marker so that 'not swallowed' is observable".into(),
        ]
    }
}
