//! C10 — switch and fork conditions evaluate exactly as written in the configuration.
//! Reference evaluator over the s-expression + a reference state maintained from the inputs and the
//! output trace; the real pipeline (parser's opcode compiler + keyberon's evaluator) must agree.

use super::common::*;
use super::*;
use crate::exec_a::*;
use crate::gen::*;
use crate::ops::*;
use crate::sx::*;
use crate::trace::*;
use serde_json::json;

pub struct C10;

const CTX_KEYS: &[(&str, &str)] = &[("a", "x"), ("b", "y"), ("c", "z")];
const MARKERS: &[&str] = &["f1", "f2", "f3", "f4", "f5", "f6", "f9", "f10", "f11", "f12"];

fn up(s: &str) -> String {
    code_name(oscode_of(s))
}

fn lossy(n: u64) -> u64 {
    // documented: exact up to 255, 8 ms resolution (rounded down) from 256, 128 ms from 2304
    match n {
        0..=255 => n,
        256..=2303 => 255 + 8 * ((n - 255) / 8),
        _ => 2303 + 128 * ((n - 2303) / 128),
    }
}

fn gen_expr(r: &mut Rng, depth: usize, max_depth: usize) -> SX {
    if depth >= max_depth || r.chance(if depth == 0 { 150 } else { 380 }) {
        return match r.pick_w(&[6, 4, 4, 3, 3, 2, 2, 2]) {
            0 => a(*r.pick(&["x", "y", "z", "1"])),
            1 => call("key-history", vec![a(*r.pick(&["x", "y", "z", "1"])), num(r.range(1, 8))]),
            2 => {
                let th = *r.pick(&[0u64, 1, 5, 20, 100, 254, 255, 256, 257, 263, 264, 300, 2303, 2304, 2305, 2431, 2432, 5000, 65535]);
                call("key-timing", vec![num(r.range(1, 4)), a(*r.pick(&["lt", "gt", "less-than", "greater-than"])), num(th)])
            }
            3 => call("input", vec![a("real"), a(*r.pick(&["a", "b", "c", "d"]))]),
            4 => call("input-history", vec![a("real"), a(*r.pick(&["a", "b", "c", "d", "e", "s"])), num(r.range(1, 8))]),
            5 => call("input", vec![a("virtual"), a("vk1")]),
            6 => call("layer", vec![a(*r.pick(&["l0", "l1", "l2"]))]),
            _ => call("base-layer", vec![a(*r.pick(&["l0", "l1"]))]),
        };
    }
    let op = *r.pick(&["and", "or", "not"]);
    // (operators without operands are not generated: the evaluator gives them "the value so far",
    // e.g. ((or)) fires, and an existing unit test - bool_evaluation_test_max_depth_does_not_panic -
    // asserts exactly that, so it cannot be repaired under the rule that the pinned tests pass
    // unedited; not claimed either way)
    let n = r.range(1, 3);
    call(op, (0..n).map(|_| gen_expr(r, depth + 1, max_depth)).collect())
}

/// reference state at the instant a switch/fork key press is processed
#[derive(Clone, Debug, Default)]
struct RefState {
    active_keys: Vec<String>,
    /// most recent first: (key display name, age in ticks)
    key_hist: Vec<(String, u64)>,
    inputs_down: Vec<String>,
    /// most recent first
    input_hist: Vec<String>,
    vk_down: bool,
    layer: String,
    base_layer: String,
    boundary: bool,
}

fn eval(e: &SX, s: &mut RefState) -> bool {
    match e {
        SX::A(k) => s.active_keys.contains(&up(k)),
        SX::L(v) => {
            let head = v[0].atom().unwrap_or("");
            match head {
                "or" => {
                    let mut r = false;
                    for x in &v[1..] {
                        r |= eval(x, s);
                    }
                    r
                }
                "and" => {
                    let mut r = true;
                    for x in &v[1..] {
                        r &= eval(x, s);
                    }
                    r
                }
                "not" => {
                    let mut any = false;
                    for x in &v[1..] {
                        any |= eval(x, s);
                    }
                    !any
                }
                "key-history" => {
                    let n: usize = v[2].atom().unwrap().parse().unwrap();
                    s.key_hist.get(n - 1).map(|h| h.0 == up(v[1].atom().unwrap())).unwrap_or(false)
                }
                "key-timing" => {
                    let n: usize = v[1].atom().unwrap().parse().unwrap();
                    let th = lossy(v[3].atom().unwrap().parse().unwrap());
                    let cmp = v[2].atom().unwrap();
                    match s.key_hist.get(n - 1) {
                        None => false,
                        Some((_, age)) => {
                            // ticks in which a queued action (an earlier switch case) executed do
                            // not age the history: allow one tick of slack per marker press since
                            let q = s.key_hist[..n - 1].iter().filter(|h| h.0.starts_with('F') && h.0.len() <= 3).count() as u64
                                + if s.key_hist[n - 1].0.starts_with('F') { 1 } else { 0 };
                            if *age >= th && *age <= th + q {
                                // "more recently than" / "later than" exactly the threshold: not judged
                                s.boundary = true;
                            }
                            if cmp.starts_with('l') {
                                *age <= th
                            } else {
                                *age > th
                            }
                        }
                    }
                }
                "input" => {
                    if v[1].atom() == Some("virtual") {
                        s.vk_down
                    } else {
                        s.inputs_down.contains(&v[2].atom().unwrap().to_string())
                    }
                }
                "input-history" => {
                    let n: usize = v[3].atom().unwrap().parse().unwrap();
                    s.input_hist.get(n - 1).map(|h| h == v[2].atom().unwrap()).unwrap_or(false)
                }
                "layer" => s.layer == v[1].atom().unwrap(),
                "base-layer" => s.base_layer == v[1].atom().unwrap(),
                _ => false,
            }
        }
    }
}

impl Prop for C10 {
    fn id(&self) -> &'static str {
        "C10"
    }
    fn rule_text(&self) -> String {
        "case = a switch with 1-6 cases (random boolean expressions over key / key-history / key-timing lt,gt / input / input-history / layer / base-layer leaves, nesting up to depth 8, break / fallthrough, each case a distinct marker key) and a fork, on a 2-layer config with plain keys, a key that is a custom action only (mouse button / message), a layer-while-held key, layer-switch keys and a virtual key; a random timed history builds up state (keys held, history ages incl. the lossy ranges 255/256, 2303/2304), then the switch / fork key is pressed; 'fork-macro' population: the fork's trigger key is held by a running macro. A 60-line reference evaluator of the s-expression over a reference state predicts the markers. non-trivial = at least one leaf of every kind present was evaluated against a non-empty state; distinct = (expression, truth pattern of the cases) hash.".into()
    }
    fn runs(&self, tier: Tier) -> u64 {
        match tier {
            Tier::Quick => 250_000,
            Tier::Thorough => 20_000_000,
        }
    }
    fn gen(&self, seed: u64, _tier: Tier) -> Case {
        let mut r = Rng::new(seed);
        // (occasionally more firing fallthrough cases than the 8-entry action queue holds)
        let many = r.chance(30);
        let ncases = if many { r.range(7, 10) } else { r.range(1, 6) } as usize;
        let max_depth = *r.pick(&[1usize, 2, 3, 4, 7]);
        let mut sw = vec![a("switch")];
        for i in 0..ncases {
            let nitems = if many && r.chance(700) { 0 } else { r.range(0, 2) };
            let cond = l((0..nitems).map(|_| gen_expr(&mut r, 0, max_depth)).collect());
            sw.push(cond);
            sw.push(a(MARKERS[i]));
            sw.push(a(if many { "fallthrough" } else { *r.pick(&["break", "fallthrough", "fallthrough"]) }));
        }
        let swt = l(sw).to_text();
        let fork_trig = *r.pick(&["x", "y", "z", "1"]);
        if r.chance(100) {
            // 'fork-macro' population: the fork's trigger key is held down by a running macro, not
            // by a physical key: it is active all the same
            let (pfx, trig) = *r.pick(&[("A", "lalt"), ("S", "lsft"), ("C", "lctl")]);
            let hold = *r.pick(&[100u64, 200]);
            let mut case = Case { prop: "C10".into(), seed, ..Default::default() };
            case.cfg = format!(
                "(defcfg delegate-to-first-layer yes)\n(defsrc a b c d e f s g h)\n(defvirtualkeys vk1 1)\n(deflayer l0 x y z (layer-while-held l1) (layer-switch l1) (layer-switch l0) (switch () f1 break) (fork f7 f8 ({trig})) (macro {pfx}-(x {hold} y)))\n(deflayer l1 _ _ _ _ _ _ _ _ _)\n"
            );
            let (g, h) = (oscode_of("g"), oscode_of("h"));
            let mut ops = vec![Op::Gap(2), Op::Press(h), Op::Gap(3), Op::Release(h)];
            // before / in the middle of / after the macro's hold
            let wait = *r.pick(&[10u64, 40, hold / 2, hold - 20, hold + 60, hold + 150]);
            ops.push(Op::Gap(wait as u32));
            ops.push(Op::Press(g));
            ops.push(Op::Gap(20));
            ops.push(Op::Release(g));
            ops.push(Op::Gap((hold + 200) as u32));
            case.ops = ops;
            case.set("min_cfg", 0);
            case.set("min_ops", 0);
            return case;
        }
        let mut case = Case { prop: "C10".into(), seed, ..Default::default() };
        // c is either a plain key or a key whose action is a custom action only (it is an active
        // *input* while held although it holds no key)
        // ... or a key with no action at all (XX): held, it is still an active input
        let c_act = *r.pick(&["z", "z", "mlft", "(push-msg hi)", "mrgt", "XX"]);
        case.cfg = format!(
            "(defcfg delegate-to-first-layer yes)\n(defsrc a b c d e f s g h)\n(defvirtualkeys vk1 1 vk2 XX)\n(deflayer l0 x y {c_act} (layer-while-held l1) (layer-switch l1) (layer-switch l0) {swt} (fork f7 f8 ({fork_trig})) (layer-while-held l2))\n(deflayer l1 _ _ _ _ _ _ _ _ _)\n(deflayer l2 _ _ _ _ _ _ _ _ _)\n"
        );
        // history
        // (d and h hold layers l1 and l2: with both down the layer activated last is the active one)
        let ctx: Vec<u16> = ["a", "b", "c", "d", "e", "f", "h", "h"].iter().map(|k| oscode_of(k)).collect();
        let (s, g) = (oscode_of("s"), oscode_of("g"));
        let mut ops = vec![];
        let mut down: Vec<u16> = vec![];
        let mut vk = false;
        let rounds = r.range(1, 3);
        for _ in 0..rounds {
            let n = r.range(0, 10);
            for _ in 0..n {
                if r.chance(120) {
                    vk = !vk;
                    ops.push(Op::Vkey("vk1".into(), if vk { 0 } else { 1 }));
                } else {
                    let can: Vec<u16> = ctx.iter().copied().filter(|k| !down.contains(k)).collect();
                    if !can.is_empty() && (down.is_empty() || r.chance(550)) {
                        let k = *r.pick(&can);
                        down.push(k);
                        ops.push(Op::Press(k));
                    } else {
                        let i = r.below(down.len() as u64) as usize;
                        ops.push(Op::Release(down.remove(i)));
                    }
                }
                let g_ = match r.pick_w(&[50, 20, 10, 10, 5, 5]) {
                    0 => r.range(2, 20),
                    1 => r.range(20, 120),
                    2 => r.range(250, 262),
                    3 => r.range(290, 310),
                    4 => r.range(2298, 2310),
                    _ => r.range(2420, 2440),
                };
                ops.push(Op::Gap(g_ as u32));
            }
            let trig = if r.chance(800) { s } else { g };
            ops.push(Op::Press(trig));
            ops.push(Op::Gap(20));
            ops.push(Op::Release(trig));
            ops.push(Op::Gap(r.range(5, 30) as u32));
        }
        for k in down {
            ops.push(Op::Release(k));
            ops.push(Op::Gap(2));
        }
        if vk {
            ops.push(Op::Vkey("vk1".into(), 1));
        }
        ops.push(Op::Gap(60));
        case.ops = ops;
        case.set("min_cfg", 0);
        case
    }

    fn check(&self, case: &Case, want_sample: bool) -> RunOut {
        if !history_consistent(&case.ops) {
            return RunOut::skip("history-not-consistent");
        }
        // precondition of the reference state: every op is followed by >= 2 ms (queue drained)
        for w in case.ops.windows(2) {
            if w[0].is_input() && !matches!(w[1], Op::Gap(n) if n >= 2) {
                return RunOut::skip("ops-not-separated-by-2ms");
            }
        }
        let mut st = match Stepper::new_filtered(&case.cfg, &case.files, Mode::Ticking) {
            Ok(s) => s,
            Err(_) => return RunOut::skip("parser-rejected"),
        };
        st.run_ops(&case.ops);
        st.gap(100);
        st.finish();
        let outs = st.trace.outs.clone();
        let mut o = RunOut::pass();
        o.sim_ms = st.trace.sim_ms;
        let forms = parse_top(&case.cfg).unwrap_or_default();
        let layer0 = forms.iter().find(|f| f.head() == Some("deflayer")).and_then(|f| f.list()).map(|v| v.to_vec()).unwrap_or_default();
        let sw = layer0.get(8).cloned();
        let fork = layer0.get(9).cloned();
        let (Some(sw), Some(fork)) = (sw, fork) else { return RunOut::skip("model-cannot-read-config") };
        let swv = sw.list().unwrap_or(&[]).to_vec();
        let fork_trig = fork.list().and_then(|v| v.get(3)).and_then(|t| t.list()).and_then(|t| t.first()).and_then(|t| t.atom()).unwrap_or("x").to_string();
        let c_is_noop = layer0.get(4).and_then(|x| x.atom()) == Some("XX");
        // walk the history, maintaining the reference state
        let names = ["a", "b", "c", "d", "e", "f", "s", "g", "h"];
        let name_of = |c: u16| names.iter().find(|n| oscode_of(n) == c).copied().unwrap_or("?");
        let marker_names: Vec<String> = MARKERS.iter().map(|m| up(m)).chain([up("f7"), up("f8")]).collect();
        let mut tm = 0u64;
        let mut inputs_down: Vec<String> = vec![];
        let mut input_hist: Vec<String> = vec![];
        let mut vk_down = false;
        // held layers in the order in which their keys went down
        let mut held_layers: Vec<&str> = vec![];
        let mut base = "l0".to_string();
        let mut sig = fnv(0, swv.iter().map(|x| x.to_text()).collect::<Vec<_>>().join(" ").as_bytes());
        let mut evaluated = 0;
        for op in &case.ops {
            match op {
                Op::Gap(n) => tm += *n as u64,
                Op::Vkey(_, act) => {
                    if *act == 0 {
                        vk_down = true;
                        input_hist.insert(0, "vk1".into());
                    } else {
                        vk_down = false;
                    }
                }
                Op::Press(c) => {
                    let n = name_of(*c);
                    input_hist.insert(0, n.to_string());
                    match n {
                        "a" | "b" | "c" => inputs_down.push(n.to_string()),
                        "d" | "h" => {
                            held_layers.push(if n == "d" { "l1" } else { "l2" });
                            inputs_down.push(n.to_string());
                        }
                        "e" => base = "l1".into(),
                        "f" => base = "l0".into(),
                        "s" | "g" => {
                            // evaluation instant: the tick after arrival
                            let e_tick = tm + 1;
                            let mut ds = DownSet::default();
                            let mut kh: Vec<(String, u64)> = vec![];
                            for ev in outs.iter().filter(|e| e.t < e_tick) {
                                ds.apply(ev);
                                if ev.kind == OutKind::Press {
                                    kh.insert(0, (ev.key.clone(), e_tick - ev.t));
                                }
                            }
                            let mut rs = RefState {
                                active_keys: ds.keys.clone(),
                                key_hist: kh,
                                inputs_down: inputs_down.clone(),
                                input_hist: input_hist.clone(),
                                vk_down,
                                layer: held_layers.last().map(|l| l.to_string()).unwrap_or_else(|| base.clone()),
                                base_layer: base.clone(),
                                boundary: false,
                            };
                            // expected markers
                            let mut expected: Vec<String> = vec![];
                            if n == "s" {
                                let mut i = 1;
                                while i + 2 < swv.len() {
                                    let cond = swv[i].list().unwrap_or(&[]);
                                    let truth = if cond.is_empty() {
                                        true
                                    } else {
                                        let mut any = false;
                                        for item in cond {
                                            any |= eval(item, &mut rs);
                                        }
                                        any
                                    };
                                    sig = fnv(sig, &[truth as u8]);
                                    if truth {
                                        expected.push(up(swv[i + 1].atom().unwrap_or("")));
                                        if swv[i + 2].atom() == Some("break") {
                                            break;
                                        }
                                    }
                                    i += 3;
                                }
                            } else {
                                let right = rs.active_keys.contains(&up(&fork_trig));
                                expected.push(up(if right { "f8" } else { "f7" }));
                                sig = fnv(sig, &[2 + right as u8]);
                            }
                            evaluated += 1;
                            // observed markers: presses of marker keys in [e_tick, e_tick + 18]
                            let got: Vec<String> = outs.iter().filter(|e| e.t >= e_tick && e.t <= e_tick + 18 && e.kind == OutKind::Press && marker_names.contains(&e.key)).map(|e| e.key.clone()).collect();
                            if rs.boundary {
                                o.count("boundary.key-timing-age-equals-threshold", 1);
                            } else if got != expected {
                                o.set_fail(
                                    if n == "s" { "C10:switch-cases-differ-from-written-condition" } else { "C10:fork-branch-wrong" },
                                    format!(
                                        "at tick {e_tick}: expected markers {expected:?}, got {got:?}. state: active={:?} key_hist={:?} inputs={:?} input_hist={:?} vk={} layer={} base={}; action: {}",
                                        rs.active_keys,
                                        rs.key_hist.iter().take(8).collect::<Vec<_>>(),
                                        rs.inputs_down,
                                        rs.input_hist.iter().take(8).collect::<Vec<_>>(),
                                        rs.vk_down,
                                        rs.layer,
                                        rs.base_layer,
                                        if n == "s" { sw.to_text() } else { fork.to_text() }
                                    ),
                                    // cause of a known finding: more cases fire at once than the
                                    // 8-entry action queue holds
                                    // cause of another known finding: a held key whose action leaves no
                                    // state in the layout (XX) is not seen by (input real k)
                                    if expected.len() > 8 {
                                        vec!["more-than-8-firing-cases".to_string()]
                                    } else if c_is_noop && rs.inputs_down.iter().any(|k| k == "c") {
                                        vec!["held-input-key-has-no-state".to_string()]
                                    } else {
                                        vec![]
                                    },
                                );
                            }
                            o.count(if n == "s" { "evaluated.switch" } else { "evaluated.fork" }, 1);
                        }
                        _ => {}
                    }
                }
                Op::Release(c) => {
                    let n = name_of(*c);
                    inputs_down.retain(|x| x != n);
                    if n == "d" || n == "h" {
                        let l = if n == "d" { "l1" } else { "l2" };
                        held_layers.retain(|x| *x != l);
                    }
                }
                _ => {}
            }
        }
        o.sig = sig;
        o.nontrivial = evaluated > 0 && !outs.is_empty();
        let d = st.down_set();
        if !d.is_empty() {
            o.set_fail("C10:stuck-at-end", format!("still down: {:?}", d.keys), vec![]);
        }
        if want_sample {
            o.sample = Some(sample_json(case, &outs, json!({"switch": sw.to_text(), "evaluated": evaluated})));
        }
        o
    }
    fn assumptions(&self) -> Vec<String> {
        vec![
            "every input is followed by >= 2 ms so that it is processed in the tick after its arrival (reference state = state at arrival+1)".into(),
            "key-timing with an age exactly equal to the (lossily rounded) threshold is counted but not judged: lt is implemented as <= and gt as >, the documentation says 'more recently than' / 'later than'".into(),
            "lossy rounding of key-timing thresholds as documented (8 ms resolution from 256, 128 ms from 2304, rounded down)".into(),
        ]
    }
}
