//! C12 — sequences: accepted tables are unambiguous; a typed sequence fires its key once.

use super::common::*;
use super::*;
use crate::exec_a::*;
use crate::gen::*;
use crate::ops::*;
use crate::trace::*;
use serde_json::json;

pub struct C12;

const LETTERS: &[&str] = &["a", "b", "c", "d", "e", "g", "h", "i"];
const FOREIGN: &[&str] = &["x", "y", "z"];
const MARKERS: &[&str] = &["f13", "f14", "f15", "f16", "f17", "f18"];
const MARKERS_OUT: &[&str] = &["F13", "F14", "F15", "F16", "F17", "F18"];
/// (prefix as written, key as the expansion sees it - the run-time treats left and right shift /
/// ctrl / meta as the same key -, mask bit, the physical keys that type it)
const MODS: &[(&str, &str, u8, &[&str])] = &[
    ("S", "lsft", 1, &["lsft", "lsft", "rsft"]),
    ("C", "lctl", 2, &["lctl", "lctl", "rctl"]),
    ("A", "lalt", 4, &["lalt"]),
    ("RS", "lsft", 1, &["rsft", "lsft"]),
    ("RC", "lctl", 2, &["rctl", "lctl"]),
];

#[derive(Clone, Debug, PartialEq)]
enum Item {
    Plain(String),
    /// modifier prefix index + keys typed while it is held
    Modded(usize, Vec<String>),
    Overlap(Vec<String>),
}

/// Independent token: (key, modifier bits, overlapping) ; ("", 0, true) closes an O-group.
type Tok = (String, u8, bool);

fn item_text(it: &Item) -> String {
    match it {
        Item::Plain(k) => k.clone(),
        Item::Modded(m, ks) if ks.len() == 1 => format!("{}-{}", MODS[*m].0, ks[0]),
        Item::Modded(m, ks) => format!("{}-({})", MODS[*m].0, ks.join(" ")),
        Item::Overlap(ks) => format!("O-({})", ks.join(" ")),
    }
}

fn permutations(ks: &[String]) -> Vec<Vec<String>> {
    if ks.len() <= 1 {
        return vec![ks.to_vec()];
    }
    let mut out = vec![];
    for i in 0..ks.len() {
        let mut rest = ks.to_vec();
        let k = rest.remove(i);
        for mut p in permutations(&rest) {
            p.insert(0, k.clone());
            out.push(p);
        }
    }
    out
}

/// every token list that types the sequence (reference reading of the defseq syntax)
fn expansions(seq: &[Item]) -> Vec<Vec<Tok>> {
    let mut acc: Vec<Vec<Tok>> = vec![vec![]];
    for it in seq {
        match it {
            Item::Plain(k) => {
                for a in acc.iter_mut() {
                    a.push((k.clone(), 0, false));
                }
            }
            Item::Modded(m, ks) => {
                for a in acc.iter_mut() {
                    a.push((MODS[*m].1.to_string(), MODS[*m].2, false));
                    for k in ks {
                        a.push((k.clone(), MODS[*m].2, false));
                    }
                }
            }
            Item::Overlap(ks) => {
                let ps = permutations(ks);
                let mut next = vec![];
                for a in &acc {
                    for p in &ps {
                        let mut b = a.clone();
                        for k in p {
                            b.push((k.clone(), 0, true));
                        }
                        b.push((String::new(), 0, true));
                        next.push(b);
                    }
                }
                acc = next;
            }
        }
    }
    acc
}

fn is_prefix(a: &[Tok], b: &[Tok]) -> bool {
    a.len() <= b.len() && a.iter().zip(b.iter()).all(|(x, y)| x == y)
}

#[derive(Clone, Debug)]
struct Table {
    seqs: Vec<Vec<Item>>,
}

fn parse_items(txt: &str) -> Vec<Item> {
    // the generator's own format, stored in params: items separated by '|', keys by ','
    txt.split('|')
        .filter(|s| !s.is_empty())
        .map(|s| {
            let (kind, rest) = s.split_once(':').unwrap_or(("p", s));
            let keys: Vec<String> = rest.split(',').map(|k| k.to_string()).collect();
            match kind {
                "p" => Item::Plain(keys[0].clone()),
                "o" => Item::Overlap(keys),
                m => Item::Modded(m[1..].parse().unwrap_or(0), keys),
            }
        })
        .collect()
}
fn items_param(seq: &[Item]) -> String {
    seq.iter()
        .map(|it| match it {
            Item::Plain(k) => format!("p:{k}"),
            Item::Overlap(ks) => format!("o:{}", ks.join(",")),
            Item::Modded(m, ks) => format!("m{m}:{}", ks.join(",")),
        })
        .collect::<Vec<_>>()
        .join("|")
}

/// What a history segment is expected to do.
#[derive(Clone, Debug)]
struct Seg {
    kind: String, // complete | foreign | timeout-alive | timeout-dead
    seq: usize,
    /// op index range [from, to) of the segment, op index at which the mode must have ended
    from: usize,
    to: usize,
    /// op index of the leader press (usize::MAX when always-on)
    leader_at: usize,
    /// op index of the terminating event (last press of the sequence / foreign key / first press after the gap)
    end_at: usize,
    /// character keys typed before termination (for the backspace count / delay-type flush)
    typed: Vec<String>,
    mode: String,
    /// (sequence-noerase n) performed in this episode
    noerase: usize,
}

impl Prop for C12 {
    fn id(&self) -> &'static str {
        "C12"
    }
    fn rule_text(&self) -> String {
        "case = defseq table of 1-5 sequences of 1-4 items (plain keys, S-/C-/A- chorded keys and groups, O-(...) groups of 2-5 keys) over 8 letters, deliberately including prefix / duplicate / permutation conflicts, one marker key per sequence; sequence-timeout T in {10,25,100}; the three input modes, a second leader with (sequence T2 mode2), sequence-always-on, OS repeat events for typed keys while held. Static oracle: an accepted table has no expansion (every permutation of its O-groups) that is a prefix of an expansion of another sequence, recomputed independently from the generated structure. Dynamic oracle per segment (segments are separated by > T idle): leader + the whole sequence with press-to-press gaps < T => its marker pressed exactly once, no other marker, mode left; proper prefix + a key that is in no sequence => no marker, mode left; prefix + gap in {T-1,T,T+1,T+5} => continues iff gap < T; the real sequence state (active / inactive) is compared after every event; hidden modes press no typed key at the OS while the mode is active, hidden-delay-type types them as taps exactly when the sequence fails, visible-backspaced sends exactly one backspace per typed character on completion and none on failure. non-trivial = at least one marker fired; distinct = config x history hash.".into()
    }
    fn runs(&self, tier: Tier) -> u64 {
        match tier {
            Tier::Quick => 400_000,
            Tier::Thorough => 30_000_000,
        }
    }
    fn gen(&self, seed: u64, _tier: Tier) -> Case {
        let mut r = Rng::new(seed);
        let mut case = Case { prop: "C12".into(), seed, ..Default::default() };
        let nseq = r.range(1, 5) as usize;
        let letters: Vec<String> = {
            let mut v: Vec<String> = LETTERS.iter().map(|s| s.to_string()).collect();
            r.shuffle(&mut v);
            v.truncate(r.range(3, 8) as usize);
            v
        };
        let gen_item = |r: &mut Rng| -> Item {
            match r.pick_w(&[55, 15, 12, 18]) {
                0 => Item::Plain(r.pick(&letters).clone()),
                1 => Item::Modded(r.below(MODS.len() as u64) as usize, vec![r.pick(&letters).clone()]),
                2 => {
                    let n = r.range(2, 3) as usize;
                    Item::Modded(r.below(MODS.len() as u64) as usize, (0..n).map(|_| r.pick(&letters).clone()).collect())
                }
                _ => {
                    let mut ks = letters.clone();
                    r.shuffle(&mut ks);
                    let n = match r.pick_w(&[50, 30, 15, 5]) {
                        0 => 2,
                        1 => 3,
                        2 => 4,
                        _ => 5,
                    }
                    .min(ks.len());
                    ks.truncate(n.max(2).min(ks.len()));
                    if ks.len() < 2 {
                        Item::Plain(ks[0].clone())
                    } else {
                        Item::Overlap(ks)
                    }
                }
            }
        };
        let mut seqs: Vec<Vec<Item>> = vec![];
        for _ in 0..nseq {
            let roll = r.below(100);
            let s: Vec<Item> = if roll < 18 && !seqs.is_empty() {
                // conflict candidates: extension, prefix, duplicate, re-ordered O-group of an existing one
                let base = r.pick(&seqs).clone();
                match r.below(4) {
                    0 => {
                        let mut s = base.clone();
                        s.push(gen_item(&mut r));
                        s
                    }
                    1 if base.len() > 1 => base[..base.len() - 1].to_vec(),
                    2 => base
                        .iter()
                        .map(|it| match it {
                            Item::Overlap(ks) => {
                                let mut k2 = ks.clone();
                                k2.reverse();
                                Item::Overlap(k2)
                            }
                            x => x.clone(),
                        })
                        .collect(),
                    _ => base.clone(),
                }
            } else {
                let n = r.range(1, 4);
                (0..n).map(|_| gen_item(&mut r)).collect()
            };
            // keep the number of expansions (product of the O-groups' factorials) small: the parser
            // materialises every permutation (documented memory blow-up), which is not what is
            // being checked here
            let fact = |n: usize| -> u64 { (1..=n as u64).product() };
            let expansions: u64 = s.iter().map(|it| if let Item::Overlap(ks) = it { fact(ks.len()) } else { 1 }).product();
            if expansions > 720 {
                continue;
            }
            seqs.push(s);
        }
        // a sequence may start with a bare modifier key, e.g. (lsft a b) - the documented example
        // of sequence-backtrack-modcancel (default yes): tapping lsft and then typing a b matches it
        if r.chance(80) {
            let m = r.pick(&["lsft", "lctl"]).to_string();
            let n = r.range(1, 2) as usize;
            let mut s0 = vec![Item::Plain(m)];
            for _ in 0..n {
                s0.push(Item::Plain(r.pick(&letters).clone()));
            }
            seqs.push(s0);
        }
        if seqs.is_empty() {
            seqs.push(vec![Item::Plain(letters[0].clone())]);
        }
        let t = *r.pick(&[10u64, 25, 100]);
        let mode = *r.pick(&["hidden-suppressed", "hidden-delay-type", "visible-backspaced"]);
        // (with hidden-suppressed an always-on sequence mode swallows every key that is not part of
        // a sequence, including the keys its own virtual keys output: not a usable combination)
        let always_on = mode != "hidden-suppressed" && r.chance(200);
        let t2 = *r.pick(&[12u64, 30]);
        let mode2 = *r.pick(&["hidden-suppressed", "hidden-delay-type", "visible-backspaced"]);
        let mut cfg = format!("(defcfg process-unmapped-keys yes sequence-timeout {t} sequence-input-mode {mode}{})\n", if always_on { " sequence-always-on yes" } else { "" });
        // a key that only performs (sequence-noerase n): n typed characters of the episode in which
        // it is pressed need no erasing; it must not change any other episode
        let noerase_n = if r.chance(300) { r.range(1, 3) } else { 0 };
        if noerase_n > 0 {
            cfg.push_str(&format!("(defsrc f1 f2 f3)\n(deflayer base sldr (sequence {t2} {mode2}) (sequence-noerase {noerase_n}))\n"));
        } else {
            cfg.push_str(&format!("(defsrc f1 f2)\n(deflayer base sldr (sequence {t2} {mode2}))\n"));
        }
        cfg.push_str("(defvirtualkeys");
        for i in 0..seqs.len() {
            cfg.push_str(&format!(" v{i} {}", MARKERS[i]));
        }
        cfg.push_str(")\n(defseq");
        for (i, s) in seqs.iter().enumerate() {
            cfg.push_str(&format!(" v{i} ({})", s.iter().map(item_text).collect::<Vec<_>>().join(" ")));
        }
        cfg.push_str(")\n");
        case.cfg = cfg;
        case.set("nseq", seqs.len());
        for (i, s) in seqs.iter().enumerate() {
            case.set(&format!("seq{i}"), items_param(s));
        }
        case.set("t", t);
        case.set("mode", mode);
        case.set("t2", t2);
        case.set("mode2", mode2);
        case.set("always_on", always_on as u8);
        case.set("min_ops", 0);
        case.set("min_cfg", 0);
        // history: segments; the checker re-derives the expectation from the "seg" params
        let code = |k: &str| oscode_of(k);
        let mut ops: Vec<Op> = vec![Op::Gap(2)];
        let nseg = r.range(1, 4);
        let mut segs: Vec<String> = vec![];
        for _ in 0..nseg {
            let si = r.below(seqs.len() as u64) as usize;
            let s = &seqs[si];
            let use_leader2 = !always_on && r.chance(300);
            let (tt, mm) = if use_leader2 { (t2, mode2) } else { (t, mode) };
            let from = ops.len();
            let mut leader_at = usize::MAX;
            if !always_on {
                leader_at = ops.len();
                let lk = if use_leader2 { "f2" } else { "f1" };
                ops.push(Op::Press(code(lk)));
                ops.push(Op::Gap(r.range(1, 2) as u32));
                ops.push(Op::Release(code(lk)));
                ops.push(Op::Gap(r.range(1, 3) as u32));
            }
            let mut ne_here = 0;
            if noerase_n > 0 && !always_on && tt >= 25 && r.chance(500) {
                ne_here = noerase_n;
                ops.push(Op::Press(code("f3")));
                ops.push(Op::Gap(1));
                ops.push(Op::Release(code("f3")));
                ops.push(Op::Gap(1));
            }
            let kind = *r.pick(&["complete", "complete", "complete", "foreign", "timeout"]);
            // number of items typed before the special event
            let cut = match kind {
                "complete" => s.len(),
                _ => r.range(0, s.len() as u64 - 1).min(s.len() as u64 - 1) as usize,
            };
            // worst case between two presses: 3 small gaps + one 1 ms gap per release of an O-group (<= 5)
            let small = |r: &mut Rng| -> u32 { r.range(1, ((tt - 1) / 5).max(1).min(6)) as u32 };
            let mut typed: Vec<String> = vec![];
            let mut end_at = usize::MAX;
            // OS auto-repeat events for a typed key while it is held: they are not part of the
            // sequence; the hidden modes must not let them through either
            let with_repeats = tt >= 25 && r.chance(300);
            // type items [0, upto)
            let type_items = |r: &mut Rng, ops: &mut Vec<Op>, typed: &mut Vec<String>, items: &[Item], end_at: &mut usize| {
                for it in items {
                    match it {
                        Item::Plain(k) => {
                            *end_at = ops.len();
                            ops.push(Op::Press(code(k)));
                            if with_repeats && r.chance(500) {
                                ops.push(Op::Gap(1));
                                ops.push(Op::Repeat(code(k)));
                            }
                            ops.push(Op::Gap(small(r)));
                            ops.push(Op::Release(code(k)));
                            ops.push(Op::Gap(small(r)));
                            typed.push(k.clone());
                        }
                        Item::Modded(m, ks) => {
                            // either hand's modifier types it
                            let phys = *r.pick(MODS[*m].3);
                            ops.push(Op::Press(code(phys)));
                            ops.push(Op::Gap(small(r)));
                            for k in ks {
                                *end_at = ops.len();
                                ops.push(Op::Press(code(k)));
                                ops.push(Op::Gap(1));
                                ops.push(Op::Release(code(k)));
                                ops.push(Op::Gap(small(r)));
                                typed.push(k.clone());
                            }
                            ops.push(Op::Release(code(phys)));
                            ops.push(Op::Gap(small(r)));
                        }
                        Item::Overlap(ks) => {
                            let mut p = ks.clone();
                            r.shuffle(&mut p);
                            for k in &p {
                                *end_at = ops.len();
                                ops.push(Op::Press(code(k)));
                                ops.push(Op::Gap(small(r)));
                                typed.push(k.clone());
                            }
                            r.shuffle(&mut p);
                            for k in &p {
                                ops.push(Op::Release(code(k)));
                                ops.push(Op::Gap(1));
                            }
                            ops.push(Op::Gap(small(r)));
                        }
                    }
                }
            };
            let mut kind_s = kind.to_string();
            match kind {
                "complete" if !always_on && matches!(s.last(), Some(Item::Overlap(_))) && r.chance(350) => {
                    // the whole sequence, its final O-group held beyond the timeout before it is
                    // released: either the sequence completed when the last key went down, or the
                    // timeout ended sequence mode - the release afterwards must not fire anything
                    kind_s = "complete-held".into();
                    type_items(&mut r, &mut ops, &mut typed, &s[..s.len() - 1], &mut end_at);
                    if let Some(Item::Overlap(ks)) = s.last() {
                        let mut p = ks.clone();
                        r.shuffle(&mut p);
                        for (i, k) in p.iter().enumerate() {
                            end_at = ops.len();
                            ops.push(Op::Press(code(k)));
                            typed.push(k.clone());
                            if i + 1 < p.len() {
                                ops.push(Op::Gap(small(&mut r)));
                            }
                        }
                        ops.push(Op::Gap((tt + 15) as u32));
                        r.shuffle(&mut p);
                        for k in &p {
                            ops.push(Op::Release(code(k)));
                            ops.push(Op::Gap(1));
                        }
                    }
                }
                "complete" => {
                    type_items(&mut r, &mut ops, &mut typed, s, &mut end_at);
                }
                "foreign" => {
                    type_items(&mut r, &mut ops, &mut typed, &s[..cut], &mut end_at);
                    let mut x = r.pick(FOREIGN).to_string();
                    // the terminating key may also be a key that occurs in the table, as long as no
                    // sequence continues with it from here (after plain keys only, so that "what
                    // was typed" is unambiguous)
                    if cut >= 1 && s[..cut].iter().all(|it| matches!(it, Item::Plain(_))) && r.chance(350) {
                        let typed_now: Vec<Tok> = typed.iter().map(|k| (k.clone(), 0u8, false)).collect();
                        let cands: Vec<String> = letters
                            .iter()
                            .filter(|l| {
                                let mut t = typed_now.clone();
                                t.push(((*l).clone(), 0, false));
                                !seqs.iter().any(|q| expansions(q).iter().any(|e| {
                                    let e: Vec<Tok> = e.iter().filter(|t| !t.0.is_empty()).map(|t| (t.0.clone(), t.1, false)).collect();
                                    e.len() >= t.len() && e[..t.len()] == t[..]
                                }))
                            })
                            .cloned()
                            .collect();
                        if let Some(c) = r.pick_opt(&cands) {
                            x = c.clone();
                        }
                    }
                    let x = x.as_str();
                    end_at = ops.len();
                    ops.push(Op::Press(code(x)));
                    ops.push(Op::Gap(2));
                    ops.push(Op::Release(code(x)));
                    ops.push(Op::Gap(2));
                    typed.push(x.to_string());
                }
                _ => {
                    type_items(&mut r, &mut ops, &mut typed, &s[..cut], &mut end_at);
                    // press-to-press gap: find the last press (or the leader press) and pad
                    let want = *r.pick(&[tt - 1, tt, tt + 1, tt + 5]);
                    let mut since = 0u64;
                    let mut found = false;
                    for op in ops.iter().rev() {
                        match op {
                            Op::Gap(g) => since += *g as u64,
                            // (the noerase key is not a typed key and does not restart the timeout)
                            Op::Press(c) if *c != code("f3") => {
                                found = true;
                                break;
                            }
                            _ => {}
                        }
                    }
                    if !found || since >= want {
                        kind_s = "skip".into();
                    } else {
                        ops.push(Op::Gap((want - since) as u32));
                        let before = typed.len();
                        if want < tt {
                            kind_s = "timeout-alive".into();
                            type_items(&mut r, &mut ops, &mut typed, &s[cut..], &mut end_at);
                        } else {
                            kind_s = "timeout-dead".into();
                            // the first press after the gap arrives in normal mode
                            typed.truncate(before);
                            end_at = ops.len();
                            if always_on {
                                let x = *r.pick(FOREIGN);
                                ops.push(Op::Press(code(x)));
                                ops.push(Op::Gap(2));
                                ops.push(Op::Release(code(x)));
                            } else {
                                type_items(&mut r, &mut ops, &mut vec![], &s[cut..], &mut usize::MAX.clone());
                            }
                        }
                    }
                }
            }
            // silence so that the next segment starts outside sequence mode
            ops.push(Op::Gap((t.max(t2) + 8) as u32));
            let to = ops.len();
            segs.push(format!("{kind_s};{si};{from};{to};{leader_at};{end_at};{};{mm};{tt};{ne_here}", typed.join(",")));
        }
        case.set("segs", segs.join("/"));
        case.ops = ops;
        case
    }

    fn check(&self, case: &Case, want_sample: bool) -> RunOut {
        if !history_consistent(&case.ops) {
            return RunOut::skip("history-not-consistent");
        }
        let nseq = case.param_u64("nseq").unwrap_or(0) as usize;
        let table = Table { seqs: (0..nseq).map(|i| parse_items(case.param(&format!("seq{i}")).unwrap_or(""))).collect() };
        // the config text must be the one generated from the parameters (no shrinking of either)
        for (i, s) in table.seqs.iter().enumerate() {
            let want = format!(" v{i} ({})", s.iter().map(item_text).collect::<Vec<_>>().join(" "));
            if !case.cfg.contains(&want) {
                return RunOut::skip("config-and-parameters-out-of-sync");
            }
        }
        // static oracle
        let exps: Vec<Vec<Vec<Tok>>> = table.seqs.iter().map(|s| expansions(s)).collect();
        // two readings: tokens as the parser encodes them (an O-group key differs from the same key
        // typed plainly, and the group is closed by a marker), and what is physically typed (a key
        // is a key: the first key of an O-group cannot be told from a plain key when it is pressed)
        let typed = |e: &Vec<Tok>| -> Vec<Tok> { e.iter().filter(|t| !t.0.is_empty()).map(|t| (t.0.clone(), t.1, false)).collect() };
        let mut conflict: Option<(usize, usize)> = None;
        let mut conflict_typed: Option<(usize, usize)> = None;
        for i in 0..exps.len() {
            for j in 0..exps.len() {
                if i == j {
                    continue;
                }
                for a in &exps[i] {
                    for b in &exps[j] {
                        if conflict.is_none() && is_prefix(a, b) {
                            conflict = Some((i, j));
                        }
                        if conflict_typed.is_none() && is_prefix(&typed(a), &typed(b)) {
                            conflict_typed = Some((i, j));
                        }
                    }
                }
            }
        }
        let mut o = RunOut::pass();
        let mut st = match Stepper::new_filtered(&case.cfg, &case.files, Mode::Ticking) {
            Ok(s) => s,
            Err(_) => {
                let c = conflict.is_some() || conflict_typed.is_some();
                let mut o = RunOut::skip(if c { "parser-rejected-conflicting-table" } else { "parser-rejected-other" });
                o.count(if c { "static.rejected-with-conflict" } else { "static.rejected-without-conflict" }, 1);
                return o;
            }
        };
        o.count("static.accepted", 1);
        o.count("static.expansions", exps.iter().map(|e| e.len() as u64).sum());
        if let Some((i, j)) = conflict {
            o.set_fail(
                "C12:ambiguous-table-accepted",
                format!("sequence v{i} ({}) is a prefix of v{j} ({}) in some permitted ordering, but the parser accepted the table", table.seqs[i].iter().map(item_text).collect::<Vec<_>>().join(" "), table.seqs[j].iter().map(item_text).collect::<Vec<_>>().join(" ")),
                vec![],
            );
            return o;
        }
        // An accepted table of the known class 'conflict only between an O-group and plain keys' is
        // reported as such at the end; before that the history still runs on it and the rules that
        // do not depend on which sequence matches are judged (nothing fires after the timeout ended
        // sequence mode, nothing stays down).
        let mut limited: Option<(String, Vec<String>)> = None;
        if let Some((i, j)) = conflict_typed {
            limited = Some((
                format!("typing v{i} ({}) is the beginning of typing v{j} ({}) in a permitted ordering of its O-groups (the keys of an O-group are typed like plain keys), but the parser accepted the table", table.seqs[i].iter().map(item_text).collect::<Vec<_>>().join(" "), table.seqs[j].iter().map(item_text).collect::<Vec<_>>().join(" ")),
                vec!["conflict-only-between-overlap-group-and-plain-keys".into()],
            ));
        }
        // Sequences whose typing shares its beginning with another sequence that encodes those keys
        // differently (overlapping vs plain): the matcher follows two hypotheses at most (known
        // finding); failures of such sequences are tagged.
        let strip = |e: &Vec<Tok>| -> Vec<Tok> { e.iter().filter(|t| !t.0.is_empty()).cloned().collect() };
        let tricky: Vec<bool> = (0..exps.len())
            .map(|i| {
                (0..exps.len()).any(|j| {
                    j != i
                        && exps[i].iter().any(|a| {
                            let a = strip(a);
                            exps[j].iter().any(|b| {
                                let b = strip(b);
                                // same keys in the same order, but encoded differently somewhere (overlapping
                                // vs plain, or under a different modifier: the matcher strips modifiers and
                                // re-interprets overlaps when it backtracks, sequence-backtrack-modcancel)
                                let k = a.iter().zip(b.iter()).take_while(|(x, y)| x.0 == y.0).count();
                                (0..k).any(|n| a[n].2 != b[n].2 || a[n].1 != b[n].1)
                            })
                        })
                })
            })
            .collect();
        // segments
        let segs: Vec<Seg> = case
            .param("segs")
            .unwrap_or("")
            .split('/')
            .filter(|s| !s.is_empty())
            .filter_map(|s| {
                let f: Vec<&str> = s.split(';').collect();
                if f.len() < 9 {
                    return None;
                }
                Some(Seg {
                    kind: f[0].to_string(),
                    seq: f[1].parse().ok()?,
                    from: f[2].parse().ok()?,
                    to: f[3].parse().ok()?,
                    leader_at: f[4].parse().ok()?,
                    end_at: f[5].parse().ok()?,
                    typed: f[6].split(',').filter(|k| !k.is_empty()).map(|k| k.to_string()).collect(),
                    mode: f[7].to_string(),
                    noerase: f.get(9).and_then(|x| x.parse().ok()).unwrap_or(0),
                })
            })
            .collect();
        if segs.iter().any(|s| s.to > case.ops.len()) {
            return RunOut::skip("history-shape-not-of-this-population");
        }
        let always_on = case.param_flag("always_on");
        // run, recording (op index -> outputs produced up to and including the tick that processed it,
        // sequence-mode flag after it)
        let mut active_after: Vec<bool> = Vec::with_capacity(case.ops.len());
        let mut outs_upto: Vec<usize> = Vec::with_capacity(case.ops.len());
        for (i, op) in case.ops.iter().enumerate() {
            st.apply(i, op);
            active_after.push(st.k.sequence_state.is_active());
            outs_upto.push(st.trace.outs.len());
        }
        st.gap(150);
        st.finish();
        o.sim_ms = st.trace.sim_ms;
        probes_into(&mut o, &st.probes, &st.trace);
        let outs = st.trace.outs.clone();
        let mut sig = fnv(0, case.cfg.as_bytes());
        for op in &case.ops {
            sig = fnv(sig, op.short().as_bytes());
        }
        o.sig = sig;
        let marker_idx = |k: &str| MARKERS_OUT.iter().position(|m| *m == k);
        let total_markers = outs.iter().filter(|e| e.kind == OutKind::Press && marker_idx(&e.key).is_some()).count();
        o.nontrivial = total_markers > 0;
        if !st.down_set().is_empty() {
            o.set_fail("C12:stuck-at-end", format!("still down: {:?}: {}", st.down_set().keys, outs_short(&outs)), vec![]);
            return o;
        }
        // "after op i" = after the first gap op following it (the event is processed in that gap's first tick)
        let after = |i: usize| -> usize {
            let mut j = i + 1;
            while j < case.ops.len() && !matches!(case.ops[j], Op::Gap(g) if g > 0) {
                j += 1;
            }
            j.min(case.ops.len() - 1)
        };
        for sg in &segs {
            if sg.kind == "skip" {
                o.count("segment.skipped-shape", 1);
                continue;
            }
            if limited.is_some() && sg.kind != "complete-held" {
                continue;
            }
            if limited.is_some() {
                o.count("segment.complete-held-in-ambiguous-table", 1);
            }
            o.count(&format!("segment.{}", sg.kind), 1);
            o.count(&format!("mode.{}", sg.mode), 1);
            let seg_first_out = if sg.from == 0 { 0 } else { outs_upto[sg.from - 1] };
            let seg_last_out = outs_upto[sg.to - 1];
            let seg_outs = &outs[seg_first_out..seg_last_out];
            let markers: Vec<usize> = seg_outs.iter().filter(|e| e.kind == OutKind::Press).filter_map(|e| marker_idx(&e.key)).collect();
            let expect_marker = matches!(sg.kind.as_str(), "complete" | "timeout-alive");
            let mut ftags: Vec<String> = if tricky.get(sg.seq).copied().unwrap_or(false) { vec!["typed-prefix-shared-with-differently-encoded-sequence".to_string()] } else { vec![] };
            if sg.kind == "foreign" && sg.typed.len() >= 2 {
                // cause of the known finding 'front backtracking': the keys typed in this segment were
                // all plain and some proper suffix of them (ending in the terminating key) is itself a
                // sequence of the table or the beginning of one
                let n_items = sg.typed.len() - 1;
                let all_plain = table.seqs[sg.seq].len() >= n_items && table.seqs[sg.seq][..n_items].iter().all(|it| matches!(it, Item::Plain(_)));
                if all_plain {
                    let toks: Vec<Tok> = sg.typed.iter().map(|k| (k.clone(), 0u8, false)).collect();
                    // (a complete sequence fires; the beginning of one keeps sequence mode alive)
                    let suffix_is_seq = (1..toks.len()).any(|from| exps.iter().any(|es| es.iter().any(|e| e.len() >= toks.len() - from && e[..toks.len() - from] == toks[from..])));
                    if suffix_is_seq {
                        ftags.push("suffix-of-typed-keys-is-another-sequence".to_string());
                    }
                }
            }
            let show = || format!("segment {:?} of v{} ({}) ops[{}..{}]: {} :: outputs {}", sg.kind, sg.seq, table.seqs[sg.seq].iter().map(item_text).collect::<Vec<_>>().join(" "), sg.from, sg.to, ops_short(&case.ops[sg.from..sg.to]), outs_short(seg_outs));
            if sg.kind == "complete-held" {
                // time of the last press of the group
                let t_press: u64 = case.ops[..sg.end_at].iter().map(|op| if let Op::Gap(g) = op { *g as u64 } else { 0 }).sum();
                let late: Vec<&OutEv> = seg_outs.iter().filter(|e| e.kind == OutKind::Press && marker_idx(&e.key).is_some() && e.t > t_press + 5).collect();
                // (in a table of the known ambiguous class another sequence may legitimately match on the way)
                // whatever the table is, a virtual key can only be tapped by a key press (or by the
                // release that ends an O-group) while sequence mode is active: no cause tag applies
                if !late.is_empty() {
                    o.set_fail("C12:fired-by-release-after-timeout", format!("the final group was held beyond the timeout (last press at {t_press}), sequence mode had ended: markers {:?}; {}", markers, show()), vec![]);
                    return o;
                }
                if limited.is_none() && (markers.len() > 1 || markers.iter().any(|m| *m != sg.seq)) {
                    o.set_fail("C12:sequence-fired-after-timeout", format!("the final group was held beyond the timeout (last press at {t_press}): markers {:?}; {}", markers, show()), ftags.clone());
                    return o;
                }
                if active_after[sg.to - 1] {
                    o.set_fail("C12:sequence-mode-not-left", format!("sequence mode still active at the end of the segment; {}", show()), ftags.clone());
                    return o;
                }
                continue;
            }
            if expect_marker {
                if markers != vec![sg.seq] {
                    o.set_fail("C12:sequence-did-not-fire-exactly-once", format!("expected marker {} exactly once, got markers {:?}; {}", MARKERS_OUT[sg.seq], markers, show()), ftags.clone());
                    return o;
                }
            } else if always_on && sg.kind == "timeout-dead" {
                // a foreign key pressed after the timeout starts and immediately ends a new sequence
                if !markers.is_empty() {
                    o.set_fail("C12:marker-without-sequence", format!("markers {:?}; {}", markers, show()), ftags.clone());
                    return o;
                }
            } else if sg.kind == "foreign" && !markers.is_empty() {
                o.set_fail("C12:marker-without-sequence", format!("markers {:?}; {}", markers, show()), ftags.clone());
                return o;
            } else if sg.kind == "timeout-dead" && !always_on {
                // the remainder typed in normal mode cannot fire anything
                if !markers.is_empty() {
                    o.set_fail("C12:sequence-fired-after-timeout", format!("markers {:?}; {}", markers, show()), ftags.clone());
                    return o;
                }
            }
            // sequence-mode flag
            if sg.leader_at != usize::MAX {
                let a = after(sg.leader_at);
                if !active_after[a] {
                    o.set_fail("C12:leader-did-not-enter-sequence-mode", show(), ftags.clone());
                    return o;
                }
            }
            if sg.end_at != usize::MAX && sg.end_at < case.ops.len() {
                let a = after(sg.end_at);
                let still_active = active_after[a];
                // for a sequence ending in an O-group the completion may come with the full release
                let end_of_seg_active = active_after[sg.to - 1];
                let must_be_inactive_now = !(matches!(sg.kind.as_str(), "complete" | "timeout-alive") && matches!(table.seqs[sg.seq].last(), Some(Item::Overlap(_))));
                if (must_be_inactive_now && still_active && !(always_on && sg.kind == "timeout-dead")) || end_of_seg_active {
                    o.set_fail("C12:sequence-mode-not-left", format!("sequence mode still active after the terminating event; {}", show()), ftags.clone());
                    return o;
                }
                // before the terminating event the mode was active (for the typed part)
                if sg.kind != "timeout-dead" && sg.end_at > 0 && !sg.typed.is_empty() && sg.typed.len() > 1 {
                    let b = sg.end_at - 1;
                    if !active_after[b] && !(always_on) {
                        o.set_fail("C12:sequence-mode-left-early", format!("sequence mode was already inactive before the terminating event; {}", show()), ftags.clone());
                        return o;
                    }
                }
            }
            // mode specific output rules, judged for the part between leader and termination
            let typed_keys: Vec<String> = sg.typed.iter().map(|k| code_name(oscode_of(k))).collect();
            let mode_from = if sg.leader_at != usize::MAX { outs_upto[after(sg.leader_at)] } else { seg_first_out };
            let mode_to = if sg.end_at != usize::MAX && sg.end_at < case.ops.len() { outs_upto[after(sg.end_at)] } else { seg_last_out };
            let in_mode = &outs[mode_from.min(mode_to)..mode_to];
            let bs = seg_outs.iter().filter(|e| e.kind == OutKind::Press && e.key == "BSpace").count();
            if sg.kind == "timeout-dead" {
                continue; // what is typed after the timeout is ordinary typing
            }
            match sg.mode.as_str() {
                "hidden-suppressed" | "hidden-delay-type" => {
                    // no press of a typed key while the mode is active; (delay-type flushes on failure)
                    let flush_ok = sg.mode == "hidden-delay-type" && sg.kind == "foreign";
                    let presses: Vec<&OutEv> = in_mode.iter().filter(|e| (e.kind == OutKind::Press || e.kind == OutKind::RepeatOut) && marker_idx(&e.key).is_none()).collect();
                    if !flush_ok && !presses.is_empty() {
                        o.set_fail("C12:hidden-mode-pressed-a-typed-key", format!("{} pressed at the OS while the sequence was in progress; {}", presses[0].key, show()), ftags.clone());
                        return o;
                    }
                    if flush_ok {
                        // every typed key (incl. modifiers and the foreign key) is tapped, in order, once
                        let taps: Vec<String> = in_mode.iter().filter(|e| e.kind == OutKind::Press).map(|e| e.key.clone()).collect();
                        let want: Vec<String> = {
                            // reconstruct the physical press order from the ops
                            let lo = if sg.leader_at != usize::MAX { after(sg.leader_at) } else { sg.from };
                            case.ops[lo..=sg.end_at].iter().filter_map(|op| if let Op::Press(c) = op { Some(code_name(*c)) } else { None }).filter(|k| k != "F1" && k != "F2" && k != "F3").collect()
                        };
                        if taps != want {
                            o.set_fail("C12:hidden-delay-type-flush-differs", format!("failed sequence must type {:?} as taps, got {:?}; {}", want, taps, show()), ftags.clone());
                            return o;
                        }
                    }
                    if bs != 0 {
                        o.set_fail("C12:backspace-in-hidden-mode", show(), ftags.clone());
                        return o;
                    }
                }
                _ => {
                    // visible-backspaced
                    // (a bare modifier key is typed but is no character)
                    let n_chars = typed_keys.iter().filter(|k| !matches!(k.as_str(), "LShift" | "LCtrl")).count();
                    let want_bs = if expect_marker { n_chars.saturating_sub(sg.noerase) } else { 0 };
                    if bs != want_bs {
                        o.set_fail("C12:visible-backspaced-count", format!("{} characters typed, {} backspaces sent (expected {}); {}", typed_keys.len(), bs, want_bs, show()), ftags.clone());
                        return o;
                    }
                }
            }
        }
        if let Some((detail, tags)) = limited {
            o.set_fail("C12:ambiguous-table-accepted", detail, tags);
            return o;
        }
        if want_sample {
            o.sample = Some(sample_json(case, &outs, json!({"markers": total_markers, "segments": segs.len()})));
        }
        o
    }
    fn assumptions(&self) -> Vec<String> {
        vec![
            "plain and chorded items are typed without overlap (each key released before the next press), O-groups fully overlapped: the statement's 'permitted ordering'".into(),
            "'a key after which no defined sequence can still match' is sampled with keys that occur in no sequence (the implementation also backtracks to a matching suffix, which the statement does not define)".into(),
            "within the timeout = press-to-press gap < T in processing time; every event is followed by >= 1 ms so that arrival order = processing order".into(),
        ]
    }
}
