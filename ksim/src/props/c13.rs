//! C13 — global overrides substitute exactly the configured combination, then let go.
//! Reference model: the set of keys kanata intends to hold (plain identity mapping, FIFO one event
//! per ms) with the stated override rule applied each ms; the OS-down set must follow it.

use super::common::*;
use super::*;
use crate::exec_a::*;
use crate::gen::*;
use crate::ops::*;
use crate::trace::*;
use serde_json::json;

pub struct C13;

const MODS8: &[&str] = &["lctl", "lsft", "lalt", "lmet", "rctl", "rsft", "ralt", "rmet"];
const LET: &[&str] = &["a", "b", "c", "d"];
const OUTK: &[&str] = &["a", "b", "c", "d", "x", "y"];

fn up(s: &str) -> String {
    code_name(oscode_of(s))
}

#[derive(Clone, Debug)]
struct Ovr {
    in_mods: Vec<String>,
    in_key: String,
    out_mods: Vec<String>,
    out_key: String,
}

#[derive(Clone, Debug)]
struct Ent {
    code: String,
    coord: u16,
    erase: bool,
    /// put into the key list by (unmod k) / (unshift k): not a layout key state, so nothing erases
    /// it before the physical key is released
    sticky: bool,
}

struct Model {
    ovr: Vec<Ovr>,
    release_on_activation: bool,
    /// true: modifiers count only if they precede the key in the held list (what the code does);
    /// false: containment (what the statement says)
    order_sensitive: bool,
    ents: Vec<Ent>,
    pending: std::collections::VecDeque<(bool, u16)>,
    prev: Vec<String>,
    now: u64,
    out: Vec<(u64, bool, String)>,
    activated: u64,
    /// a physical key (OS code) that outputs two keys at once: (multi k1 k2)
    multi: Option<(u16, String, String)>,
    /// physical key whose action is (unmod k) / (unshift k), and k
    unmod: Option<(u16, String)>,
}

impl Model {
    fn is_mod(k: &str) -> bool {
        MODS8.iter().any(|m| up(m) == k)
    }
    fn tick(&mut self) {
        self.now += 1;
        if let Some((press, coord)) = self.pending.pop_front() {
            if press {
                self.ents.retain(|e| !e.erase);
                match &self.multi {
                    Some((c, k1, k2)) if *c == coord => {
                        self.ents.push(Ent { code: k1.clone(), coord, erase: false, sticky: false });
                        self.ents.push(Ent { code: k2.clone(), coord, erase: false, sticky: false });
                    }
                    _ => match &self.unmod {
                        Some((c, k)) if *c == coord => self.ents.push(Ent { code: k.clone(), coord, erase: false, sticky: true }),
                        _ => self.ents.push(Ent { code: code_name(coord), coord, erase: false, sticky: false }),
                    },
                }
            } else {
                self.ents.retain(|e| !e.erase && e.coord != coord);
            }
        }
        // (keys from unmod / unshift come after the layout's keys in the list)
        let list: Vec<String> = self.ents.iter().filter(|e| !e.sticky).chain(self.ents.iter().filter(|e| e.sticky)).map(|e| e.code.clone()).collect();
        // apply the override rule
        let mut remove: Vec<String> = vec![];
        let mut add: Vec<String> = vec![];
        let mut seen_mods: Vec<String> = vec![];
        let all_mods: Vec<String> = list.iter().filter(|k| Self::is_mod(k)).cloned().collect();
        for k in &list {
            if Self::is_mod(k) {
                seen_mods.push(k.clone());
                continue;
            }
            let held = if self.order_sensitive { &seen_mods } else { &all_mods };
            let mut best: Option<&Ovr> = None;
            for o in self.ovr.iter().filter(|o| o.in_key == *k) {
                if o.in_mods.iter().all(|m| held.contains(m)) && best.map(|b| o.in_mods.len() > b.in_mods.len()).unwrap_or(true) {
                    best = Some(o);
                }
            }
            if let Some(o) = best {
                self.activated += 1;
                for m in &o.out_mods {
                    if !add.contains(m) {
                        add.push(m.clone());
                    }
                }
                if !add.contains(&o.out_key) {
                    add.push(o.out_key.clone());
                }
                for m in &o.in_mods {
                    if !remove.contains(m) {
                        remove.push(m.clone());
                    }
                }
                if !remove.contains(&o.in_key) {
                    remove.push(o.in_key.clone());
                }
            }
        }
        let mut cur: Vec<String> = list.iter().filter(|k| !remove.contains(k)).cloned().collect();
        cur.extend(add.iter().cloned());
        // eager erasure of the overridden non-modifier key
        for k in remove.iter().filter(|k| !Self::is_mod(k)) {
            for e in self.ents.iter_mut() {
                if e.code == *k && !e.sticky {
                    e.erase = true;
                }
            }
        }
        // output = ordered, de-duplicated difference
        for k in self.prev.clone() {
            if !cur.contains(&k) {
                self.out.push((self.now, false, k));
            }
        }
        let mut pressed = self.prev.clone();
        for k in &cur {
            if !pressed.contains(k) {
                pressed.push(k.clone());
                self.out.push((self.now, true, k.clone()));
            }
        }
        // (one OS release per key, however many entries of the list held it down)
        let mut cur_dedup: Vec<String> = vec![];
        for k in cur {
            if !cur_dedup.contains(&k) {
                cur_dedup.push(k);
            }
        }
        self.prev = cur_dedup;
        if self.release_on_activation {
            let rm: Vec<String> = remove.iter().filter(|k| !Self::is_mod(k)).cloned().collect();
            self.ents.retain(|e| !rm.contains(&e.code));
        }
    }
    fn run(&mut self, ops: &[Op]) {
        for op in ops {
            match op {
                Op::Press(c) => self.pending.push_back((true, *c)),
                Op::Release(c) => self.pending.push_back((false, *c)),
                Op::Gap(n) => {
                    for _ in 0..*n {
                        self.tick();
                    }
                }
                _ => {}
            }
        }
    }
}

fn parse_ovr(case: &Case) -> Vec<Ovr> {
    // "lctl+lsft,a>ralt,b;..."
    let mut v = vec![];
    for ent in case.param("ovr").unwrap_or("").split(';').filter(|s| !s.is_empty()) {
        let (i, o) = ent.split_once('>').unwrap();
        let (im, ik) = i.split_once(',').unwrap();
        let (om, ok) = o.split_once(',').unwrap();
        v.push(Ovr {
            in_mods: im.split('+').filter(|s| !s.is_empty()).map(up).collect(),
            in_key: up(ik),
            out_mods: om.split('+').filter(|s| !s.is_empty()).map(up).collect(),
            out_key: up(ok),
        });
    }
    v
}

impl Prop for C13 {
    fn id(&self) -> &'static str {
        "C13"
    }
    fn rule_text(&self) -> String {
        "case = identity layer over the 8 modifiers + 4 letters with a random defoverrides table (1-4 overrides, 0-2 input modifiers, 0-2 output modifiers, overlapping on the same key), override-release-on-activation on/off; physically consistent histories of <= 16 presses/releases with small gaps. Oracle: the OS output sequence (ms, kind, key) equals that of the reference model which applies the stated rule (most modifiers wins; key + its modifiers replaced; others untouched; outputs released when the combination ends; eager erasure of the overridden key). non-trivial = an override activated in the model; distinct = table x history hash.".into()
    }
    fn runs(&self, tier: Tier) -> u64 {
        match tier {
            Tier::Quick => 400_000,
            Tier::Thorough => 15_000_000,
        }
    }
    fn gen(&self, seed: u64, _tier: Tier) -> Case {
        let mut r = Rng::new(seed);
        let n = r.range(1, 4);
        let mut ents: Vec<String> = vec![];
        let mut forms: Vec<String> = vec![];
        let mut seen: Vec<(Vec<&str>, &str)> = vec![];
        for _ in 0..n {
            let ik = *r.pick(&LET[..3]);
            let mut im: Vec<&str> = vec![];
            for _ in 0..r.range(0, 2) {
                let m = *r.pick(MODS8);
                if !im.contains(&m) {
                    im.push(m);
                }
            }
            im.sort();
            if seen.contains(&(im.clone(), ik)) {
                continue;
            }
            seen.push((im.clone(), ik));
            let mut om: Vec<&str> = vec![];
            for _ in 0..r.range(0, 2) {
                let m = *r.pick(MODS8);
                if !om.contains(&m) {
                    om.push(m);
                }
            }
            let ok = *r.pick(OUTK);
            ents.push(format!("{},{ik}>{},{ok}", im.join("+"), om.join("+")));
            forms.push(format!("({} {ik}) ({} {ok})", im.join(" "), om.join(" ")));
        }
        // 'unmod-lone' population: a key whose action is (unmod k) / (unshift k), and no modifier is
        // ever pressed: k is in the key list like any key, so an override of k alone applies to it
        let unmod_lone = r.chance(120);
        let unmod_letter = *r.pick(&LET[..3]);
        if unmod_lone {
            let ok = *r.pick(&["x", "y"]);
            ents.insert(0, format!(",{unmod_letter}>,{ok}"));
            forms.insert(0, format!("({unmod_letter}) ({ok})"));
            // (the generated table may already override the bare letter: the first entry wins)
            let mut i = 1;
            while i < ents.len() {
                if ents[i].starts_with(&format!(",{unmod_letter}>")) {
                    ents.remove(i);
                    forms.remove(i);
                } else {
                    i += 1;
                }
            }
        }
        let roa = !unmod_lone && r.chance(400);
        let mut case = Case { prop: "C13".into(), seed, ..Default::default() };
        // optionally a physical key that outputs two of the letters at once, so that two overridden
        // keys can be live in the same key list (eager erasure keeps that from happening otherwise)
        let multi: Option<(&str, &str)> = if !unmod_lone && r.chance(300) {
            let k1 = *r.pick(&LET[..3]);
            let k2 = *r.pick(&LET[..3]);
            if k1 != k2 {
                Some((k1, k2))
            } else {
                None
            }
        } else {
            None
        };
        case.cfg = format!(
            "(defcfg override-release-on-activation {})\n(defsrc {} {}{})\n(deflayer l0 {} {}{})\n(defoverrides {})\n",
            if roa { "yes" } else { "no" },
            MODS8.join(" "),
            LET.join(" "),
            if multi.is_some() { " m" } else if unmod_lone { " n" } else { "" },
            MODS8.join(" "),
            LET.join(" "),
            if unmod_lone { format!(" ({} {unmod_letter})", *r.pick(&["unmod", "unshift"])) } else { multi.map(|(a, b)| format!(" (multi {a} {b})")).unwrap_or_default() },
            forms.join(" ")
        );
        if let Some((a, b)) = multi {
            case.set("multi", format!("{a},{b}"));
        }
        case.set("ovr", ents.join(";"));
        case.set("roa", roa as u8);
        // history biased to the modifiers and keys of the table
        let mut keys: Vec<u16> = vec![];
        for (im, ik) in &seen {
            for m in im {
                keys.push(oscode_of(m));
            }
            keys.push(oscode_of(ik));
        }
        for _ in 0..r.range(1, 4) {
            keys.push(oscode_of(*r.pick(MODS8)));
            keys.push(oscode_of(*r.pick(LET)));
        }
        if multi.is_some() {
            keys.push(oscode_of("m"));
            keys.push(oscode_of("m"));
        }
        if unmod_lone {
            case.set("unmod", unmod_letter);
            keys.retain(|k| !MODS8.iter().any(|m| oscode_of(m) == *k));
            keys.push(oscode_of("n"));
        }
        keys.sort();
        keys.dedup();
        let mut ops = vec![];
        let mut down: Vec<u16> = vec![];
        for _ in 0..r.range(2, 16) {
            let can: Vec<u16> = keys.iter().copied().filter(|k| !down.contains(k)).collect();
            if !can.is_empty() && (down.is_empty() || r.chance(560)) {
                let k = *r.pick(&can);
                down.push(k);
                ops.push(Op::Press(k));
            } else {
                let i = r.below(down.len() as u64) as usize;
                ops.push(Op::Release(down.remove(i)));
            }
            ops.push(Op::Gap(*r.pick(&[1u32, 1, 2, 3, 0])));
            // an OS repeat event for a held key (handled between ticks with the same override
            // machinery): it must not change what the next tick computes
            if !down.is_empty() && r.chance(120) {
                ops.push(Op::Repeat(*r.pick(&down)));
                if r.chance(500) {
                    ops.push(Op::Gap(1));
                }
            }
        }
        for k in down {
            ops.push(Op::Release(k));
            ops.push(Op::Gap(1));
        }
        ops.push(Op::Gap(30));
        case.ops = ops;
        case.set("min_cfg", 0);
        case
    }

    fn check(&self, case: &Case, want_sample: bool) -> RunOut {
        if !history_consistent(&case.ops) {
            return RunOut::skip("history-not-consistent");
        }
        let mut st = match Stepper::new_filtered(&case.cfg, &case.files, Mode::Ticking) {
            Ok(s) => s,
            Err(_) => return RunOut::skip("parser-rejected"),
        };
        st.run_ops(&case.ops);
        st.gap(30);
        st.finish();
        let real: Vec<(u64, bool, String)> = st.trace.outs.iter().filter(|e| matches!(e.kind, OutKind::Press | OutKind::Release)).map(|e| (e.t, e.kind == OutKind::Press, e.key.clone())).collect();
        let run_model = |order_sensitive: bool| -> Model {
            let mut m = Model {
                ovr: parse_ovr(case),
                release_on_activation: case.param_u64("roa").unwrap_or(0) == 1,
                order_sensitive,
                ents: vec![],
                pending: Default::default(),
                prev: vec![],
                now: 0,
                out: vec![],
                activated: 0,
                multi: case.param("multi").and_then(|m| {
                    let mut it = m.split(',');
                    Some((oscode_of("m"), up(it.next()?), up(it.next()?)))
                }),
                unmod: case.param("unmod").map(|k| (oscode_of("n"), up(k))),
            };
            m.run(&case.ops);
            for _ in 0..30 {
                m.tick();
            }
            m
        };
        let m1 = run_model(false);
        let mut o = RunOut::pass();
        o.sim_ms = st.trace.sim_ms;
        let mut sig = fnv(0, case.cfg.as_bytes());
        for op in &case.ops {
            sig = fnv(sig, op.short().as_bytes());
        }
        o.sig = sig;
        o.nontrivial = m1.activated > 0;
        let d = st.down_set();
        if !d.is_empty() {
            o.set_fail("C13:override-output-stuck", format!("still down at the end: {:?}: {}", d.keys, outs_short(&st.trace.outs)), vec![]);
        }
        if real != m1.out && !o.failed() {
            let m2 = run_model(true);
            let tags = if real == m2.out { vec!["modifier-pressed-after-key".to_string()] } else { vec![] };
            let i = real.iter().zip(m1.out.iter()).position(|(x, y)| x != y).unwrap_or(real.len().min(m1.out.len()));
            let fmt = |v: &Vec<(u64, bool, String)>| v.iter().skip(i.saturating_sub(3)).take(8).map(|(t, p, k)| format!("{t}@{}{k}", if *p { "↓" } else { "↑" })).collect::<Vec<_>>().join(" ");
            o.set_fail(
                "C13:differs-from-override-rule",
                format!("table {} (release-on-activation {}): output #{i} differs. real: [{}] rule: [{}]", case.param("ovr").unwrap_or(""), case.param("roa").unwrap_or("0"), fmt(&real), fmt(&m1.out)),
                tags,
            );
        }
        if want_sample {
            o.sample = Some(sample_json(case, &st.trace.outs, json!({"table": case.param("ovr"), "model_activations": m1.activated})));
        }
        o
    }
    fn assumptions(&self) -> Vec<String> {
        vec![
            "the exhaustive 'all key lists up to length 4' clause of the quantifier is a pure function and is not what this check enumerates (DESIGN.md C13)".into(),
            "the overridden non-modifier key is erased eagerly (on the next action or release; immediately with override-release-on-activation), as the anchors of the property describe".into(),
        ]
    }
}
