//! C14 — OS key-repeat is forwarded for, and only for, keys kanata is holding down.

use super::common::*;
use super::*;
use crate::exec_a::*;
use crate::gen::*;
use crate::ops::*;
use crate::trace::*;
use serde_json::json;

pub struct C14;

const MOD_NAMES: &[&str] = &["LShift", "RShift", "LCtrl", "RCtrl", "LAlt", "RAlt", "LGui", "RGui"];

impl Prop for C14 {
    fn id(&self) -> &'static str {
        "C14"
    }
    fn rule_text(&self) -> String {
        "case = config over every key-producing action form (plain key, output chord, multi, tap-hold variants, tap-dance, one-shot, fork, switch, chords v1/v2, unmod/unshift, use-defsrc, transparent fall-through; nested <= 3) on 1-3 layers, optionally with defoverrides (plus a 'sequence' population: keys held and repeated in and right after sequence mode in all three input modes; plus an 'override' population: the overridden key reached as a plain key, through transparency / use-defsrc, inside a multi or as an unmapped key); history holds 1-3 keys and injects OS repeat events at arbitrary ms, including while a tap-hold is undecided. Oracle: each repeat input produces 0 or 1 output; an output is only ever for a key that is down at the OS; if the repeated physical key is the one whose press put still-down output key(s) down, exactly one repeat is produced, for one of them (the non-modifier of a chord rather than its modifiers). non-trivial = at least one repeat output was produced; distinct = config x history hash.".into()
    }
    fn runs(&self, tier: Tier) -> u64 {
        match tier {
            Tier::Quick => 120_000,
            Tier::Thorough => 6_000_000,
        }
    }
    fn gen(&self, seed: u64, _tier: Tier) -> Case {
        let mut r = Rng::new(seed);
        if r.chance(250) {
            // 'layered' population: two pure layer keys and two typing keys on three layers; keys are
            // pressed below / above later-activated layers and repeated there
            let outs = ["x", "y", "z", "S-w", "C-v", "_", "_", "XX", "(multi lalt q)"];
            let mut cfg = String::from("(defsrc f1 f2 k m)\n(deflayer l0 (layer-while-held l1) (layer-while-held l2) a b)\n");
            for ln in ["l1", "l2"] {
                let lk2 = if ln == "l1" { *r.pick(&["(layer-while-held l2)", "_"]) } else { "_" };
                cfg.push_str(&format!("(deflayer {ln} _ {lk2} {} {})\n", r.pick(&outs), r.pick(&outs)));
            }
            let mut case = Case { prop: "C14".into(), seed, cfg, ..Default::default() };
            let (f1, f2, k, m) = (oscode_of("f1"), oscode_of("f2"), oscode_of("k"), oscode_of("m"));
            let mut ops = vec![];
            let mut down: Vec<u16> = vec![];
            for _ in 0..r.range(3, 12) {
                let roll = r.below(100);
                let typing_down: Vec<u16> = down.iter().copied().filter(|c| *c == k || *c == m).collect();
                if roll < 40 && !typing_down.is_empty() {
                    ops.push(Op::Repeat(*r.pick(&typing_down)));
                } else {
                    let key = *r.pick(&[f1, f2, k, m, k]);
                    if down.contains(&key) {
                        if r.chance(400) {
                            ops.push(Op::Release(key));
                            down.retain(|c| *c != key);
                        }
                    } else {
                        ops.push(Op::Press(key));
                        down.push(key);
                    }
                }
                ops.push(Op::Gap(r.range(21, 40) as u32));
            }
            for c in down {
                ops.push(Op::Release(c));
                ops.push(Op::Gap(3));
            }
            ops.push(Op::Gap(50));
            case.ops = ops;
            case.set("pop", "layered");
            return case;
        }
        if r.chance(100) {
            // 'sequence' population: keys held and repeated in sequence mode and right after it ended
            // (completed, cancelled by a key that continues no sequence, or timed out): in the hidden
            // modes the typed keys are not pressed at the OS, so they must not be repeated there
            let mode = *r.pick(&["hidden-suppressed", "hidden-delay-type", "visible-backspaced"]);
            let cact = *r.pick(&["c", "S-c", "b", "(multi lctl c)"]);
            // a second leader enters sequence mode with an input mode of its own
            let mode2 = *r.pick(&["hidden-suppressed", "hidden-delay-type", "visible-backspaced"]);
            let cfg = format!(
                "(defcfg sequence-input-mode {mode} sequence-timeout {})\n(defsrc f1 f2 a b c)\n(deflayer l0 sldr (sequence {} {mode2}) a b {cact})\n(defvirtualkeys v0 f13)\n(defseq v0 (a b))\n",
                *r.pick(&[60u64, 200]),
                *r.pick(&[60u64, 200])
            );
            let mut case = Case { prop: "C14".into(), seed, cfg, ..Default::default() };
            let (f1, a, b, c) = (oscode_of(if r.chance(500) { "f1" } else { "f2" }), oscode_of("a"), oscode_of("b"), oscode_of("c"));
            let mut ops = vec![Op::Press(f1), Op::Gap(3), Op::Release(f1), Op::Gap(r.range(2, 10) as u32)];
            let mut down: Vec<u16> = vec![];
            for _ in 0..r.range(3, 10) {
                let roll = r.below(100);
                if roll < 45 && !down.is_empty() {
                    ops.push(Op::Repeat(*r.pick(&down)));
                } else {
                    let key = *r.pick(&[a, b, c, c]);
                    if down.contains(&key) {
                        ops.push(Op::Release(key));
                        down.retain(|k| *k != key);
                    } else {
                        ops.push(Op::Press(key));
                        down.push(key);
                    }
                }
                ops.push(Op::Gap(*r.pick(&[5u32, 12, 30, 70, 250])));
            }
            for k in down {
                ops.push(Op::Release(k));
                ops.push(Op::Gap(3));
            }
            ops.push(Op::Gap(300));
            case.ops = ops;
            case.set("pop", "sequence");
            return case;
        }
        if r.chance(150) {
            // 'override' population: a modifier key and a key whose output is the input of an
            // override - reached as a plain key, through transparency / use-defsrc on one or two
            // layers, inside a multi, or as an unmapped key - held and repeated in both press orders
            let pum = r.chance(500);
            let modk = *r.pick(&["lsft", "lsft", "_", "rsft"]);
            let bacts = ["b", "_", "use-defsrc", "(multi _ XX)", "(multi lsft _)", "S-b", "(tap-hold 20 20 b lctl)", "(multi b XX)"];
            let ovs = ["(lsft b) (g)", "(lsft b) (lctl g)", "(b) (h)", "(rsft b) (g)", "(lsft b) (g) (lsft n) (j)", "(lsft n) (j)", "(lsft lctl b) (g) (lsft b) (h)"];
            let cfg = format!(
                "(defcfg process-unmapped-keys {})\n(defsrc lsft b k f1)\n(deflayer l0 {modk} {} c (layer-while-held l1))\n(deflayer l1 _ {} _ _)\n(defoverrides {})\n",
                if pum { "yes" } else { "no" },
                r.pick(&bacts),
                r.pick(&["_", "_", "b", "use-defsrc", "z"]),
                r.pick(&ovs)
            );
            let mut case = Case { prop: "C14".into(), seed, cfg, ..Default::default() };
            let mut keys: Vec<u16> = ["lsft", "b", "k", "f1"].iter().map(|k| oscode_of(k)).collect();
            if pum {
                keys.push(oscode_of("n"));
                keys.push(oscode_of("rsft"));
            }
            let typing: Vec<u16> = [oscode_of("b"), oscode_of("n"), oscode_of("k")].into_iter().filter(|c| keys.contains(c)).collect();
            let mut ops = vec![];
            let mut down: Vec<u16> = vec![];
            for _ in 0..r.range(3, 12) {
                let roll = r.below(100);
                let typing_down: Vec<u16> = down.iter().copied().filter(|c| typing.contains(c)).collect();
                if roll < 40 && !typing_down.is_empty() {
                    ops.push(Op::Repeat(*r.pick(&typing_down)));
                } else {
                    let key = *r.pick(&keys);
                    if down.contains(&key) {
                        if r.chance(400) {
                            ops.push(Op::Release(key));
                            down.retain(|c| *c != key);
                        }
                    } else {
                        ops.push(Op::Press(key));
                        down.push(key);
                    }
                }
                ops.push(Op::Gap(r.range(21, 40) as u32));
            }
            for c in down {
                ops.push(Op::Release(c));
                ops.push(Op::Gap(3));
            }
            ops.push(Op::Gap(50));
            case.ops = ops;
            case.set("pop", "override");
            return case;
        }
        let feats = feat::PLAIN
            | feat::CHORD_OUT
            | feat::MULTI
            | feat::NOOP
            | feat::TRANS
            | feat::SRC
            | feat::LWH
            | feat::LSW
            | feat::TAP_HOLD
            | feat::TAP_HOLD_KEYS
            | feat::TAP_DANCE
            | feat::ONE_SHOT
            | feat::FORK
            | feat::SWITCH
            | feat::CHORD_V1
            | feat::CHORD_V2
            | feat::UNMOD
            | feat::OVERRIDES
            | feat::LAYERMAP
            | feat::ALIASES;
        let o = GenOpts { feats, max_keys: 5, max_layers: 3, max_depth: 3, hostile: false };
        let spec = gen_general(&mut r, &o);
        // nop0-nop9 are pseudo keys that are never sent to the OS; as "outputs" they only confuse
        // the question of which key a repeat is for
        let cfg = spec_text(&spec).replace("nop0", "XX").replace("nop5", "XX");
        let mut case = Case { prop: "C14".into(), seed, cfg, files: spec.files.clone(), ..Default::default() };
        let keys: Vec<u16> = spec.src.iter().map(|k| oscode_of(k)).filter(|c| *c != 0 && !is_wheel_code(*c) && !is_mouse_btn_code(*c)).collect();
        if keys.is_empty() {
            case.ops = vec![Op::Gap(1)];
            return case;
        }
        let mut ops = vec![];
        let mut down: Vec<u16> = vec![];
        let n = r.range(2, 14);
        for _ in 0..n {
            let roll = r.below(100);
            if roll < 40 && !down.is_empty() {
                ops.push(Op::Repeat(*r.pick(&down)));
            } else {
                let can: Vec<u16> = keys.iter().copied().filter(|k| !down.contains(k)).collect();
                if !can.is_empty() && down.len() < 3 && (down.is_empty() || r.chance(600)) {
                    let k = *r.pick(&can);
                    down.push(k);
                    ops.push(Op::Press(k));
                } else if !down.is_empty() {
                    let i = r.below(down.len() as u64) as usize;
                    ops.push(Op::Release(down.remove(i)));
                }
            }
            let g = match r.pick_w(&[20, 40, 25, 15]) {
                0 => 1,
                1 => r.range(2, 12),
                2 => {
                    if spec.timeouts.is_empty() {
                        30
                    } else {
                        *r.pick(&spec.timeouts) + r.range(0, 3)
                    }
                }
                _ => r.range(30, 400),
            };
            ops.push(Op::Gap(g.min(3000) as u32));
        }
        for k in down {
            ops.push(Op::Release(k));
            ops.push(Op::Gap(2));
        }
        ops.push(Op::Gap(50));
        case.ops = ops;
        case
    }

    fn check(&self, case: &Case, want_sample: bool) -> RunOut {
        if !history_consistent(&case.ops) {
            return RunOut::skip("history-not-consistent");
        }
        // the hardware-repeat gate lives in event_loop: model it in the feeder
        let allow = !case.cfg.contains("allow-hardware-repeat no");
        let mut st = match Stepper::new_filtered(&case.cfg, &case.files, Mode::Ticking) {
            Ok(s) => s,
            Err(_) => return RunOut::skip("parser-rejected"),
        };
        let mut o = RunOut::pass();
        if let Some(p) = case.param("pop") {
            o.count(&format!("pop.{p}"), 1);
        }
        // physical keys that are layer keys and nothing else on every layer (they output nothing and
        // decide nothing, so holding or pressing them does not disturb the attribution of outputs)
        let layer_keys: Vec<u16> = {
            let mut v = vec![];
            if let Some(forms) = crate::sx::parse_top(&case.cfg) {
                let src: Vec<String> = forms.iter().find(|f| f.head() == Some("defsrc")).and_then(|f| f.list()).map(|l| l[1..].iter().filter_map(|x| x.atom().map(|s| s.to_string())).collect()).unwrap_or_default();
                let layers: Vec<&[crate::sx::SX]> = forms.iter().filter(|f| f.head() == Some("deflayer")).filter_map(|f| f.list()).collect();
                let has_maps = forms.iter().any(|f| f.head() == Some("deflayermap"));
                if !has_maps {
                    for (i, name) in src.iter().enumerate() {
                        let mut any_layer_action = false;
                        let all_ok = layers.iter().all(|l| match l.get(i + 2) {
                            Some(x) if x.atom() == Some("_") || x.atom() == Some("XX") => true,
                            Some(x) if matches!(x.head(), Some("layer-while-held") | Some("layer-toggle")) && x.list().map(|v| v.len() == 2).unwrap_or(false) => {
                                any_layer_action = true;
                                true
                            }
                            _ => false,
                        });
                        if all_ok && any_layer_action && layers.first().map(|l| l.get(i + 2).map(|x| x.head().is_some()).unwrap_or(false)).unwrap_or(false) {
                            v.push(oscode_of(name));
                        }
                    }
                }
            }
            v
        };
        let mut press_idx: std::collections::HashMap<u16, usize> = Default::default();
        // layers consulted when the key was pressed (held layers, newest first, then the default
        // layer): a repeat is still owed when further layers have been activated on top since, but
        // not judged when one of these has been left (the output can no longer be attributed)
        let mut layers_at_press: std::collections::HashMap<u16, (Vec<u16>, usize)> = Default::default();
        // was the engine drained when the key was pressed? (a pending tap-dance / tap-hold / chord /
        // one-shot of an EARLIER key is resolved by this press, and its output is not "what this
        // key put down")
        let mut drained_at_press: std::collections::HashMap<u16, bool> = Default::default();
        let mut n_repeat_out = 0u64;
        for (i, op) in case.ops.iter().enumerate() {
            match op {
                Op::Repeat(c) => {
                    if !allow {
                        o.count("gate.repeat-dropped-by-allow-hardware-repeat-no", 1);
                        continue;
                    }
                    // state before the repeat
                    let ds = st.down_set();
                    let n0 = st.trace.outs.len();
                    st.apply(i, op);
                    let new: Vec<OutEv> = st.trace.outs[n0..].to_vec();
                    o.count("input.repeat_events", 1);
                    // (a) 0 or 1 output, and it is a repeat of a down key
                    if new.len() > 1 {
                        o.set_fail("C14:more-than-one-output-per-repeat", format!("repeat of {} produced {}: {}", code_name(*c), new.len(), outs_short(&new)), vec![]);
                    }
                    for e in &new {
                        n_repeat_out += 1;
                        if e.kind != OutKind::RepeatOut {
                            o.set_fail("C14:repeat-produced-non-repeat-output", format!("repeat of {} produced {}", code_name(*c), outs_short(&new)), vec![]);
                        } else if !ds.keys.contains(&e.key) {
                            // which glue feature holds the key up?
                            let mut tags = vec![];
                            for (needle, tag) in [("unmod", "cfg:unmod"), ("unshift", "cfg:unmod"), ("one-shot", "cfg:one-shot"), ("defoverrides", "cfg:defoverrides")] {
                                if case.cfg.contains(needle) && !tags.contains(&tag.to_string()) {
                                    tags.push(tag.to_string());
                                }
                            }
                            o.set_fail(
                                "C14:repeat-for-key-that-is-up",
                                format!("at {} repeat of physical {} produced a repeat of {} which is not down at the OS (down: {:?}): {}", st.now, code_name(*c), e.key, ds.keys, outs_short(&st.trace.outs)),
                                tags,
                            );
                        }
                    }
                    // (b) completeness
                    // precondition "on the active layers": nothing but time and repeats happened
                    // between the press of this key and the repeat
                    // ... and no other key was physically down when it was pressed (otherwise an
                    // output may belong to that other key's delayed action: tap-hold, chord...)
                    let undisturbed = press_idx
                        .get(c)
                        .map(|pi| {
                            case.ops[*pi + 1..i].iter().all(|x| matches!(x, Op::Gap(_) | Op::Repeat(_)) || matches!(x, Op::Press(k) if layer_keys.contains(k))) && {
                                let mut dn: Vec<u16> = vec![];
                                let mut last_other_input_gap = 1000u64;
                                for x in &case.ops[..*pi] {
                                    match x {
                                        Op::Press(k) if layer_keys.contains(k) => {}
                                        Op::Release(k) if layer_keys.contains(k) => {}
                                        Op::Press(k) => {
                                            dn.push(*k);
                                            last_other_input_gap = 0;
                                        }
                                        Op::Release(k) => {
                                            dn.retain(|y| y != k);
                                            last_other_input_gap = 0;
                                        }
                                        Op::Gap(n) => last_other_input_gap += *n as u64,
                                        _ => {}
                                    }
                                }
                                dn.is_empty() && last_other_input_gap >= 20
                            }
                        })
                        .unwrap_or(false);
                    let layers_now: Vec<u16> = st.k.layout.b().trans_resolution_layer_order().iter().copied().collect();
                    let default_now = st.k.layout.b().default_layer;
                    let layers_ok = layers_at_press.get(c).map(|(ls, d)| *d == default_now && ls.iter().all(|x| layers_now.contains(x))).unwrap_or(false);
                    if layers_ok && layers_at_press.get(c).map(|(ls, _)| ls.len() < layers_now.len()).unwrap_or(false) {
                        o.count("completeness.layer-activated-on-top-since-press", 1);
                    }
                                        let undisturbed = undisturbed && layers_ok && drained_at_press.get(c).copied().unwrap_or(false);
                    if !undisturbed {
                        o.count("completeness.skipped-other-input-or-layer-change-since-press", 1);
                    }
                    if let (Some(pi), true) = (press_idx.get(c), undisturbed) {
                        // keys that went down in response to that press and are still down
                        let mine: Vec<String> = st.trace.outs[..n0].iter().filter(|e| e.kind == OutKind::Press && e.in_idx == *pi && ds.keys.contains(&e.key)).map(|e| e.key.clone()).collect();
                        // later re-presses of the same key by other inputs make the attribution ambiguous
                        let ambiguous = mine.iter().any(|k| st.trace.outs[..n0].iter().filter(|e| e.kind == OutKind::Press && e.key == *k && e.in_idx != *pi && e.in_idx > *pi).count() > 0);
                        if !mine.is_empty() && !ambiguous {
                            o.count("completeness.checked", 1);
                            match new.first() {
                                None => {
                                    let mut tags = vec![];
                                    for (needle, tag) in [("defchordsv2", "cfg:defchordsv2"), ("(defchords ", "cfg:defchords"), ("defoverrides", "cfg:defoverrides"), ("(switch", "cfg:switch"), ("one-shot", "cfg:one-shot"), ("tap-dance", "cfg:tap-dance")] {
                                        if case.cfg.contains(needle) {
                                            tags.push(tag.to_string());
                                        }
                                    }
                                    o.set_fail(
                                        "C14:no-repeat-for-held-output",
                                        format!("at {} physical {} is held and its press put {:?} down (still down), but the OS repeat produced nothing: {}", st.now, code_name(*c), mine, outs_short(&st.trace.outs)),
                                        tags,
                                    );
                                }
                                Some(e) => {
                                    if e.kind == OutKind::RepeatOut && ds.keys.contains(&e.key) {
                                        if !mine.contains(&e.key) {
                                            o.count("completeness.repeat-for-other-down-key", 1);
                                        } else {
                                            // a modifier must not win over a key listed after it
                                            let pos = mine.iter().position(|k| *k == e.key).unwrap_or(0);
                                            let later_non_mod = mine[pos + 1..].iter().find(|k| !MOD_NAMES.contains(&k.as_str()));
                                            if MOD_NAMES.contains(&e.key.as_str()) {
                                                if let Some(k2) = later_non_mod {
                                                    o.set_fail("C14:repeated-modifier-instead-of-key", format!("physical {} put {:?} down; the repeat came for {} instead of {}: {}", code_name(*c), mine, e.key, k2, outs_short(&st.trace.outs)), vec![]);
                                                }
                                            }
                                        }
                                    }
                                }
                            }
                        }
                    }
                }
                Op::Press(c) => {
                    press_idx.insert(*c, i);
                    layers_at_press.insert(*c, (st.k.layout.b().trans_resolution_layer_order().iter().copied().collect(), st.k.layout.b().default_layer));
                    {
                        let l = st.k.layout.b();
                        let drained = l.queue.is_empty()
                            && l.waiting.is_none()
                            && l.extra_waiting.is_empty()
                            && l.tap_dance_eager.is_none()
                            && l.oneshot.keys.is_empty()
                            && l.action_queue.is_empty()
                            && l.active_sequences.is_empty()
                            && l.chords_v2.as_ref().map(|c| c.is_idle_chv2()).unwrap_or(true);
                        drained_at_press.insert(*c, drained);
                    }
                    st.apply(i, op);
                }
                Op::Release(c) => {
                    press_idx.remove(c);
                    st.apply(i, op);
                }
                _ => st.apply(i, op),
            }
        }
        st.gap(50);
        st.finish();
        o.sim_ms = st.trace.sim_ms;
        probes_into(&mut o, &st.probes, &st.trace);
        let mut sig = fnv(0, case.cfg.as_bytes());
        for op in &case.ops {
            sig = fnv(sig, op.short().as_bytes());
        }
        o.sig = sig;
        o.nontrivial = n_repeat_out > 0;
        if want_sample {
            o.sample = Some(sample_json(case, &st.trace.outs, json!({"repeat_outputs": n_repeat_out})));
        }
        o
    }
    fn assumptions(&self) -> Vec<String> {
        vec![
            "'the held physical key is what put an output key down' = OS presses emitted after that key's press and before any other input, still down when the repeat arrives".into(),
            "the allow-hardware-repeat gate (event_loop) is modelled by the feeder; macros, sequences, caps-word and dynamic macros are outside this fragment".into(),
        ]
    }
}
