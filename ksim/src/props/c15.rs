//! C15 — live reload is all-or-nothing: failure keeps the old config, success = restart.
//!
//! Executor: the real `Kanata::new` on real files (tmpfs), driven through the processing loop's own
//! per-iteration time handling `handle_time_ticks` (hook H3) on the virtual clock, so that the
//! request flag, the deferral ("no key down, or one idle second") and `do_live_reload` itself are
//! the production code. Faults are injected on the storage seam (the file that is reloaded).

use super::common::*;
use super::*;
use crate::gen::*;
use crate::ops::*;
use crate::trace::*;
use kanata_parser::keys::OsCode;
use kanata_state_machine::oskbd::{KeyEvent, KeyValue};
use kanata_state_machine::{Kanata, ValidatedArgs};
use kanata_tcp_protocol::ServerMessage;
use kanata_verif_rt::mpsc::{sync_channel, Receiver, SyncSender};
use serde_json::json;
use std::path::PathBuf;

pub struct C15;

const REQ_KEY: &str = "f12";

struct Sim {
    k: Kanata,
    tx: Option<SyncSender<ServerMessage>>,
    rx: Receiver<ServerMessage>,
    now: u64,
    outs: Vec<OutEv>,
    /// (tick, message) offered to the notification channel
    notes: Vec<(u64, String)>,
    mapped: rustc_hash::FxHashSet<OsCode>,
    paths: Vec<PathBuf>,
    /// (tick at which the pending flag dropped, reload notification seen in that tick)
    attempts: Vec<(u64, bool, usize)>,
    /// ticks at which a request became pending
    requests: Vec<u64>,
    pending_prev: bool,
    att_seen: u64,
    dropped_base: u64,
    cur_op: usize,
    /// tick at which each op was applied
    op_tick: Vec<u64>,
    gap_done: u64,
    /// (op index, ticks of that gap already done) at each attempt
    attempt_pos: Vec<(usize, u64)>,
    down_at_apply: Vec<Vec<String>>,
    unaware_at_apply: Vec<bool>,
    tick_err: Option<String>,
    last_in: usize,
    /// consecutive ms during which a reload was pending, kanata reported idle and no input arrived
    idle_pending_run: u64,
    max_idle_pending_run: u64,
}

fn parse_mapped(path: &PathBuf) -> Option<rustc_hash::FxHashSet<OsCode>> {
    kanata_parser::cfg::new_from_file(path).ok().map(|c| c.mapped_keys)
}

impl Sim {
    fn new(paths: Vec<PathBuf>, chan_cap: usize) -> Result<Sim, String> {
        let mapped = parse_mapped(&paths[0]).ok_or("parse")?;
        let args = ValidatedArgs { paths: paths.clone(), tcp_server_address: None, symlink_path: None, nodelay: true };
        let k = Kanata::new(&args).map_err(|e| format!("{e}"))?;
        let (tx, rx) = sync_channel::<ServerMessage>(chan_cap);
        Ok(Sim { k, tx: Some(tx), rx, now: 0, outs: vec![], notes: vec![], mapped, paths, attempts: vec![], requests: vec![], pending_prev: false, dropped_base: kanata_keyberon::layout::VERIF_CUSTOM_EVENTS_DROPPED.load(std::sync::atomic::Ordering::Relaxed), att_seen: kanata_state_machine::verif_seam::LIVE_RELOAD_ATTEMPTS.load(std::sync::atomic::Ordering::Relaxed), cur_op: 0, op_tick: vec![], gap_done: 0, attempt_pos: vec![], down_at_apply: vec![], unaware_at_apply: vec![], tick_err: None, last_in: usize::MAX, idle_pending_run: 0, max_idle_pending_run: 0 })
    }
    fn down_now(&self) -> Vec<String> {
        let mut d = DownSet::default();
        for e in &self.outs {
            d.apply(e);
        }
        let mut v = d.keys.clone();
        v.extend(d.buttons.iter().cloned());
        v
    }
    fn drain(&mut self) {
        let evs = std::mem::take(&mut self.k.kbd_out.outputs.events);
        // the recorder also keeps a formatted log that grows with every output (hundreds of MB
        // over a long run of continuous scrolling); nothing here reads it
        if !evs.is_empty() {
            self.k.kbd_out.log = kanata_state_machine::oskbd::LogFmt::new();
        }
        for s in evs {
            if let Some(mut e) = parse_out(self.now, &s) {
                e.in_idx = self.last_in;
                self.outs.push(e);
            }
        }
    }
    fn tick(&mut self) {
        let _ = self.k.can_block_update_idle_waiting(1);
        kanata_verif_rt::inactive_clock_advance(1_000_000);
        // what kanata itself knows to be held, before this iteration
        let mut aware_keys: Vec<String> = self.k.prev_keys.iter().map(|k| format!("{k:?}")).collect();
        for s in self.k.layout.b().states.iter() {
            if let kanata_keyberon::layout::State::Custom { value, .. } = s {
                for ca in value.iter() {
                    match ca {
                        kanata_parser::custom_action::CustomAction::Mouse(b) | kanata_parser::custom_action::CustomAction::MouseTap(b) => aware_keys.push(format!("{b:?}")),
                        kanata_parser::custom_action::CustomAction::Unmodded { keys, .. } | kanata_parser::custom_action::CustomAction::Unshifted { keys } => {
                            for k in keys.iter() {
                                aware_keys.push(format!("{k:?}"));
                            }
                        }
                        _ => {}
                    }
                }
            }
        }
        let aware_custom = false;
        if let Err(e) = self.k.verif_handle_time_ticks(&self.tx) {
            if self.tick_err.is_none() {
                self.tick_err = Some(format!("{e}"));
            }
        }
        self.now += 1;
        self.drain();
        let mut reloaded = false;
        while let Ok(m) = self.rx.try_recv() {
            let txt = match &m {
                ServerMessage::ConfigFileReload { new } => {
                    reloaded = true;
                    format!("ConfigFileReload:{}", PathBuf::from(new).file_name().map(|f| f.to_string_lossy().to_string()).unwrap_or_default())
                }
                ServerMessage::LayerChange { new } => format!("LayerChange:{new}"),
                ServerMessage::MessagePush { .. } => "MessagePush".to_string(),
                other => format!("{other:?}"),
            };
            self.notes.push((self.now, txt));
        }
        let pending = self.k.verif_live_reload_requested();
        if pending && self.k.is_idle() {
            self.idle_pending_run += 1;
            self.max_idle_pending_run = self.max_idle_pending_run.max(self.idle_pending_run);
        } else {
            self.idle_pending_run = 0;
        }
        let att_now = kanata_state_machine::verif_seam::LIVE_RELOAD_ATTEMPTS.load(std::sync::atomic::Ordering::Relaxed);
        let attempted_now = att_now > self.att_seen;
        self.att_seen = att_now;
        if (pending && !self.pending_prev) || (attempted_now && !self.pending_prev) {
            // (a request made and served within one iteration never shows as pending)
            self.requests.push(self.now);
        }
        if attempted_now {
            // (the index that was tried: a failed reload puts cur_cfg_idx back - hook H6)
            let tried = kanata_state_machine::verif_seam::LIVE_RELOAD_LAST_IDX.load(std::sync::atomic::Ordering::Relaxed);
            self.attempts.push((self.now, reloaded, tried));
            self.attempt_pos.push((self.cur_op, self.gap_done));
            if reloaded {
                // (this tick's key releases are emitted before the reload step of the same iteration)
                let d = self.down_now();
                // output kanata had no state for when it decided to reload (lost earlier)
                // ... or whose custom release event keyberon dropped on the way (hook H5: one custom
                // event per tick), possibly in this very iteration
                let dropped = kanata_keyberon::layout::VERIF_CUSTOM_EVENTS_DROPPED.load(std::sync::atomic::Ordering::Relaxed) > self.dropped_base;
                self.unaware_at_apply.push(!aware_custom && (dropped || d.iter().all(|k| !aware_keys.contains(k))));
                self.down_at_apply.push(d);
                if let Some(m) = parse_mapped(&self.paths[self.k.cur_cfg_idx]) {
                    self.mapped = m;
                }
            }
        }
        self.pending_prev = pending;
    }
    fn gap(&mut self, n: u64) {
        for j in 0..n {
            self.gap_done = j + 1;
            self.tick();
        }
    }
    fn key(&mut self, idx: usize, code: u16, value: KeyValue) {
        let Some(osc) = OsCode::from_u16(code) else { return };
        if std::env::var_os("KSIM_TRACE").is_some() {
            eprintln!("IN t={} {:?} {:?} mapped={} idx={} pending={}", self.now, osc, value, self.mapped.contains(&osc), self.k.cur_cfg_idx, self.k.verif_live_reload_requested());
        }
        if !self.mapped.contains(&osc) {
            return;
        }
        self.last_in = idx;
        self.idle_pending_run = 0;
        let _ = self.k.can_block_update_idle_waiting(0);
        if let Err(e) = self.k.handle_input_event(&KeyEvent { code: osc, value }) {
            if self.tick_err.is_none() {
                self.tick_err = Some(format!("handle_input_event: {e}"));
            }
        }
        self.drain();
    }
    fn apply(&mut self, idx: usize, op: &Op) {
        self.cur_op = idx;
        self.gap_done = 0;
        while self.op_tick.len() <= idx {
            self.op_tick.push(self.now);
        }
        match op {
            Op::Press(c) => self.key(idx, *c, KeyValue::Press),
            Op::Release(c) => self.key(idx, *c, KeyValue::Release),
            Op::Gap(n) => self.gap(*n as u64),
            Op::FileWrite(i, content) => {
                if let Some(p) = self.paths.get(*i) {
                    let _ = std::fs::remove_dir(p);
                    let _ = std::fs::write(p, content);
                }
            }
            Op::FileBytes(i, b) => {
                if let Some(p) = self.paths.get(*i) {
                    let _ = std::fs::remove_dir(p);
                    let _ = std::fs::write(p, b);
                }
            }
            Op::FileRemove(i) => {
                if let Some(p) = self.paths.get(*i) {
                    let _ = std::fs::remove_file(p);
                    let _ = std::fs::remove_dir(p);
                }
            }
            Op::FileDir(i) => {
                if let Some(p) = self.paths.get(*i) {
                    let _ = std::fs::remove_file(p);
                    let _ = std::fs::create_dir(p);
                }
            }
            Op::Vkey(name, act) => {
                if let Some(i) = self.k.virtual_keys.get(name).copied() {
                    let action = match act & 3 {
                        0 => kanata_parser::custom_action::FakeKeyAction::Press,
                        1 => kanata_parser::custom_action::FakeKeyAction::Release,
                        2 => kanata_parser::custom_action::FakeKeyAction::Tap,
                        _ => kanata_parser::custom_action::FakeKeyAction::Toggle,
                    };
                    crate::exec_a::tcp_act_on_fake_key(&mut self.k, action, i as u16);
                }
            }
            _ => {}
        }
    }
}

/// scratch directory on tmpfs, removed on drop
struct Scratch(PathBuf);
impl Scratch {
    fn new(tag: &str) -> Scratch {
        static N: std::sync::atomic::AtomicU64 = std::sync::atomic::AtomicU64::new(0);
        let n = N.fetch_add(1, std::sync::atomic::Ordering::Relaxed);
        let base = if std::path::Path::new("/dev/shm").is_dir() { PathBuf::from("/dev/shm") } else { std::env::temp_dir() };
        let p = base.join(format!("ksim-c15-{}-{}-{}", std::process::id(), tag, n));
        let _ = std::fs::remove_dir_all(&p);
        let _ = std::fs::create_dir_all(&p);
        Scratch(p)
    }
}
impl Drop for Scratch {
    fn drop(&mut self) {
        let _ = std::fs::remove_dir_all(&self.0);
    }
}

fn setup_files(dir: &Scratch, files: &[(String, String)]) -> Vec<PathBuf> {
    let mut paths = vec![];
    for (n, c) in files {
        if !n.starts_with("cfg") {
            // auxiliary files (zippy dictionaries...) live next to the configs
            let _ = std::fs::write(dir.0.join(n), c);
            continue;
        }
        let p = dir.0.join(n);
        let _ = std::fs::write(&p, c);
        paths.push(p);
    }
    paths
}

/// config generator for both sides: no features whose state is retained across a reload by design
/// (dynamic macros, clipboard) and none that need external files
fn gen_cfg(r: &mut Rng, req_action: Option<&str>) -> (String, CfgSpec) {
    let (t, s, _) = gen_cfg_files(r, req_action, "x");
    (t, s)
}

/// Like `gen_cfg`, with zippychord allowed: the dictionary file gets a name unique to `tag` so that
/// several configurations can live in one directory. Returns (text, spec, auxiliary files).
fn gen_cfg_files(r: &mut Rng, req_action: Option<&str>, tag: &str) -> (String, CfgSpec, Vec<(String, String)>) {
    let zippy = r.chance(300);
    let feats = feat::ALL_RUNTIME & !feat::DELAY & !feat::DYNMACRO & if zippy { !0 } else { !feat::ZIPPY };
    let o = GenOpts { feats, max_keys: 5, max_layers: 3, max_depth: 2, hostile: false };
    let mut spec = gen_general(r, &o);
    if let Some(act) = req_action {
        if !spec.src.iter().any(|k| k == REQ_KEY) {
            spec.src.push(REQ_KEY.to_string());
            let act_sx = crate::sx::parse_top(act).and_then(|v| v.into_iter().next()).unwrap_or(crate::sx::a("lrld"));
            for (_, acts) in spec.layers.iter_mut() {
                acts.push(act_sx.clone());
            }
        }
    }
    let mut text = spec_text(&spec);
    let mut aux = vec![];
    for (n, c) in &spec.files {
        let n2 = format!("{}_{tag}.txt", n.trim_end_matches(".txt"));
        text = text.replace(n.as_str(), &n2);
        aux.push((n2, c.clone()));
    }
    (text, spec, aux)
}

impl Prop for C15 {
    fn id(&self) -> &'static str {
        "C15"
    }
    fn rule_text(&self) -> String {
        "case = 1-3 config files (generated from the action grammar; one key of the old config carries lrld / lrld-next / lrld-prev / (lrld-num n)); history = typing on the old config (keys held, tap-holds pending, one-shots active, macros running at the moment of the request), a storage fault or a new valid content written to the file that will be reloaded (valid / unbalanced / truncated / semantically rejected / empty / missing / directory / not UTF-8), the request (optionally twice back-to-back), release of everything, then typing on whatever config is active. Executed on the real Kanata::new + handle_time_ticks (hook H3) with a notification channel of capacity 1 or 100. Oracles: FAILED reload: no ConfigFileReload notification, the current file index is unchanged, and the whole output trace equals that of the same history on a twin configuration whose request key is (push-msg ...) instead of the reload action (the request changed nothing); SUCCESSFUL reload: applied once per pending request and only when no OS key is down or >= 1000 ms after the request, and a request never stays pending through more than 1100 consecutive idle ms, nothing is down afterwards, ConfigFileReload(file) then LayerChange(first layer) are offered to the channel, and the continuation typed from an idle state produces exactly the output a freshly started instance of the new file produces for the same continuation. non-trivial = a reload was attempted; distinct = files x history hash.".into()
    }
    fn runs(&self, tier: Tier) -> u64 {
        match tier {
            Tier::Quick => 80_000,
            Tier::Thorough => 8_000_000,
        }
    }
    fn gen(&self, seed: u64, _tier: Tier) -> Case {
        let mut r = Rng::new(seed);
        let mut case = Case { prop: "C15".into(), seed, ..Default::default() };
        let nfiles = r.range(1, 3) as usize;
        let req = match r.pick_w(&[45, 20, 15, 20]) {
            0 => "lrld".to_string(),
            1 => "lrld-next".to_string(),
            2 => "lrld-prev".to_string(),
            _ => format!("(lrld-num {})", r.range(1, nfiles as u64)),
        };
        let (old_txt, old_spec, old_aux) = gen_cfg_files(&mut r, Some(&req), "old");
        // target index after the request(s)
        let twice = r.chance(200);
        let mut idx = 0usize;
        for _ in 0..(if twice { 2 } else { 1 }) {
            idx = if req == "lrld" {
                idx
            } else if req == "lrld-next" {
                (idx + 1) % nfiles
            } else if req == "lrld-prev" {
                (idx + nfiles - 1) % nfiles
            } else {
                req.trim_end_matches(')').rsplit(' ').next().and_then(|n| n.parse::<usize>().ok()).map(|n| n - 1).unwrap_or(0)
            };
        }
        let target = idx;
        // files at start: cfg0 = old; the others arbitrary valid configs
        let mut files: Vec<(String, String)> = vec![("cfg0.kbd".into(), old_txt.clone())];
        for i in 1..nfiles {
            // with back-to-back requests the file reloaded by the first one must understand the second
            let (t, _, aux) = gen_cfg_files(&mut r, if twice { Some(&req) } else { None }, &format!("f{i}"));
            files.push((format!("cfg{i}.kbd"), t));
            files.extend(aux);
        }
        // new content of the target
        let new_has_lrld = r.chance(400);
        let (new_txt, new_spec, new_aux) = gen_cfg_files(&mut r, if twice { Some(&req) } else if new_has_lrld { Some("lrld") } else { None }, "new");
        let fault = match r.pick_w(&[50, 8, 8, 8, 6, 6, 6, 8]) {
            0 => "valid",
            1 => "unbalanced",
            2 => "truncated",
            3 => "semantic",
            4 => "empty",
            5 => "missing",
            6 => "directory",
            _ => "not-utf8",
        };
        files.extend(old_aux);
        files.extend(new_aux);
        case.cfg = old_txt.clone();
        case.files = files;
        case.set("nfiles", nfiles);
        case.set("req", &req);
        case.set("target", target);
        case.set("fault", fault);
        case.set("twice", twice as u8);
        // (one iteration offers at most LayerChange + ConfigFileReload + LayerChange)
        case.set("chan_cap", *r.pick(&[3u64, 100]));
        case.set("min_cfg", 0);
        case.set("min_files", 0);
        case.set("min_ops", 0);
        case.set("min_gaps", 0);
        // phase 1: typing on the old config, possibly leaving keys down
        let old_keys: Vec<u16> = old_spec.src.iter().filter(|k| *k != REQ_KEY).map(|k| oscode_of(k)).filter(|c| *c != 0 && !is_wheel_code(*c)).collect();
        let mut ops: Vec<Op> = vec![Op::Gap(2)];
        let mut down: Vec<u16> = vec![];
        if !old_keys.is_empty() {
            for _ in 0..r.range(0, 8) {
                let k = *r.pick(&old_keys);
                if down.contains(&k) {
                    ops.push(Op::Release(k));
                    down.retain(|x| *x != k);
                } else {
                    ops.push(Op::Press(k));
                    down.push(k);
                }
                let g = match r.pick_w(&[40, 40, 20]) {
                    0 => r.range(1, 5),
                    1 => r.range(5, 60),
                    _ => {
                        if old_spec.timeouts.is_empty() {
                            30
                        } else {
                            (*r.pick(&old_spec.timeouts)).min(400) + r.range(0, 2)
                        }
                    }
                };
                ops.push(Op::Gap(g as u32));
            }
            if r.chance(500) {
                // release everything before the request
                for k in down.drain(..) {
                    ops.push(Op::Release(k));
                    ops.push(Op::Gap(2));
                }
                ops.push(Op::Gap(r.range(1, 40) as u32));
            }
        }
        // the storage fault / new content
        case.set("fault_at", ops.len());
        match fault {
            "valid" => ops.push(Op::FileWrite(target, new_txt.clone())),
            "unbalanced" => ops.push(Op::FileWrite(target, format!("{new_txt}\n(defalias zz (multi a b"))),
            "truncated" => {
                let cut = r.range(1, new_txt.len().max(2) as u64 - 1) as usize;
                let mut c = cut;
                while !new_txt.is_char_boundary(c) {
                    c -= 1;
                }
                ops.push(Op::FileWrite(target, new_txt[..c].to_string()));
            }
            "semantic" => ops.push(Op::FileWrite(target, format!("{new_txt}\n(defalias zz (no-such-action 1 2))\n"))),
            "empty" => ops.push(Op::FileWrite(target, String::new())),
            "missing" => ops.push(Op::FileRemove(target)),
            "directory" => ops.push(Op::FileDir(target)),
            _ => {
                let mut b = new_txt.clone().into_bytes();
                let at = r.below(b.len().max(1) as u64) as usize;
                b.insert(at.min(b.len()), 0xff);
                b.insert(at.min(b.len()), 0xfe);
                ops.push(Op::FileBytes(target, b));
            }
        }
        ops.push(Op::Gap(1));
        // the request
        let rk = oscode_of(REQ_KEY);
        case.set("req_at", ops.len());
        // (the request key itself may be held for longer than the idle second)
        let long_req = !twice && r.chance(120);
        for _ in 0..(if twice { 2 } else { 1 }) {
            ops.push(Op::Press(rk));
            ops.push(Op::Gap(if long_req { r.range(1_200, 1_800) } else { r.range(1, 4) } as u32));
            ops.push(Op::Release(rk));
            ops.push(Op::Gap(r.range(1, 4) as u32));
        }
        // keys still held are released after a while (the reload waits for them, but not for
        // longer than one idle second)
        ops.push(Op::Gap(*r.pick(&[1u32, 5, 40, 300, 300, 1_300, 2_200])));
        r.shuffle(&mut down);
        for k in down.drain(..) {
            ops.push(Op::Release(k));
            ops.push(Op::Gap(r.range(1, 10) as u32));
        }
        // settle: idle long enough for every pending timeout of the old config and for the reload
        let settle = quiescence_bound(&old_txt, &[]).min(4_000) + 1_200;
        ops.push(Op::Gap(settle as u32));
        case.set("cont_at", ops.len());
        // continuation: typing on the union of both key sets (unmapped keys are passed by)
        let mut cont_keys: Vec<u16> = new_spec.src.iter().chain(old_spec.src.iter()).filter(|k| *k != REQ_KEY).map(|k| oscode_of(k)).filter(|c| *c != 0 && !is_wheel_code(*c)).collect();
        cont_keys.sort();
        cont_keys.dedup();
        let mut down: Vec<u16> = vec![];
        if !cont_keys.is_empty() {
            for _ in 0..r.range(2, 10) {
                let k = *r.pick(&cont_keys);
                if down.contains(&k) {
                    ops.push(Op::Release(k));
                    down.retain(|x| *x != k);
                } else {
                    ops.push(Op::Press(k));
                    down.push(k);
                }
                ops.push(Op::Gap(r.range(1, 60) as u32));
            }
            for k in down.drain(..) {
                ops.push(Op::Release(k));
                ops.push(Op::Gap(2));
            }
        }
        ops.push(Op::Gap(600));
        case.ops = ops;
        case
    }

    fn check(&self, case: &Case, want_sample: bool) -> RunOut {
        if !history_consistent(&case.ops) {
            return RunOut::skip("history-not-consistent");
        }
        let target = case.param_u64("target").unwrap_or(0) as usize;
        let fault = case.param("fault").unwrap_or("valid").to_string();
        let req = case.param("req").unwrap_or("lrld").to_string();
        let cont_at = case.param_u64("cont_at").unwrap_or(u64::MAX) as usize;
        let req_at = case.param_u64("req_at").unwrap_or(u64::MAX) as usize;
        let chan_cap = case.param_u64("chan_cap").unwrap_or(100) as usize;
        if cont_at > case.ops.len() || req_at >= case.ops.len() {
            return RunOut::skip("history-shape-not-of-this-population");
        }
        // ---- run A: the real thing
        let dir = Scratch::new("a");
        let paths = setup_files(&dir, &case.files);
        if paths.is_empty() {
            return RunOut::skip("no-config-files");
        }
        let mut a = match Sim::new(paths.clone(), chan_cap) {
            Ok(s) => s,
            Err(_) => return RunOut::skip("parser-rejected"),
        };
        let mut cont_tick = 0u64;
        let mut out_idx_at_cont = 0usize;
        for (i, op) in case.ops.iter().enumerate() {
            if i == cont_at {
                cont_tick = a.now;
                out_idx_at_cont = a.outs.len();
            }
            a.apply(i, op);
        }
        let mut o = RunOut::pass();
        o.sim_ms = a.now;
        o.count(&format!("fault.{fault}"), 1);
        o.count(&format!("request.{}", req.split(' ').next().unwrap_or("").trim_start_matches('(')), 1);
        o.count(&format!("notification-channel-capacity.{chan_cap}"), 1);
        let mut sig = fnv(0, case.cfg.as_bytes());
        for (_, c) in &case.files {
            sig = fnv(sig, c.as_bytes());
        }
        for op in &case.ops {
            sig = fnv(sig, op.short().as_bytes());
        }
        o.sig = sig;
        if let Some(e) = &a.tick_err {
            o.set_fail("C15:tick-error", format!("tick returned an error: {e}"), vec![]);
            return o;
        }
        let attempted = !a.attempts.is_empty();
        o.nontrivial = attempted;
        if a.max_idle_pending_run > 1_000 {
            o.count("probe.reload-pending-through-an-idle-second", 1);
        }
        if a.max_idle_pending_run > 1_100 {
            // "or after one idle second": a pending reload does not outlast an idle second
            o.set_fail(
                "C15:idle-fallback-did-not-reload",
                format!("a reload stayed pending through {} consecutive ms in which kanata reported idle and no input arrived (requests at {:?}, attempts at {:?})", a.max_idle_pending_run, a.requests, a.attempts.iter().map(|x| x.0).collect::<Vec<_>>()),
                vec![],
            );
            return o;
        }
        if a.requests.is_empty() {
            // the request key did nothing (e.g. its press was consumed by a pending decision of another key that never resolved)
            o.count("request.never-became-pending", 1);
            return o;
        }
        if !attempted {
            // legitimately pending as long as something is down at the OS (e.g. a virtual key held
            // for a long duration); a violation once nothing has been down for more than a second
            let mut d = DownSet::default();
            let mut last_down = a.requests[0];
            let mut prev_t = 0u64;
            for e in &a.outs {
                if e.t > a.requests[0] {
                    // any output at all counts as activity (continuous scrolling / mouse movement
                    // has no "down" state but keeps kanata from idling and from reloading)
                    last_down = last_down.max(e.t);
                }
                d.apply(e);
                prev_t = e.t;
            }
            let _ = prev_t;
            if !d.is_empty() && a.k.verif_live_reload_requested() {
                o.count("request.still-pending-with-output-held", 1);
                return o;
            }
            let pending = a.k.verif_live_reload_requested();
            if !pending {
                o.set_fail("C15:request-lost", format!("a reload request was registered at tick(s) {:?}; it was never served and is no longer pending at tick {}", a.requests, a.now), vec![]);
                return o;
            }
            // still pending: legitimate while kanata itself still holds something (a virtual key held
            // for a duration, a held custom action...)
            let holds = !a.k.layout.b().states.is_empty() || !a.k.prev_keys.is_empty() || !a.k.vkeys_pending_release.is_empty();
            if !holds && a.now > last_down + 1_100 {
                o.set_fail("C15:reload-never-attempted", format!("a reload was requested at tick(s) {:?} and is still pending at tick {} although kanata holds nothing and nothing has been down at the OS since tick {last_down}", a.requests, a.now), vec![]);
            } else {
                o.count("request.still-pending-at-end", 1);
            }
            return o;
        }
        // attempts made before the continuation starts (the continuation may press a reload key of
        // the new configuration; those attempts only have to be truthful)
        let nfiles = paths.len();
        let presses = if case.param_flag("twice") { 2 } else { 1 };
        let model_idx: Vec<usize> = {
            let mut v = vec![];
            let mut idx = 0usize;
            for _ in 0..presses {
                idx = if req == "lrld" {
                    idx
                } else if req == "lrld-next" {
                    (idx + 1) % nfiles
                } else if req == "lrld-prev" {
                    (idx + nfiles - 1) % nfiles
                } else {
                    req.trim_end_matches(')').rsplit(' ').next().and_then(|n| n.parse::<usize>().ok()).map(|n| n - 1).unwrap_or(0)
                };
                v.push(idx);
            }
            v
        };
        let loadable: Vec<bool> = paths.iter().map(|p| kanata_parser::cfg::new_from_file(p).is_ok()).collect();
        for (t, ok, idx) in &a.attempts {
            if *idx >= nfiles {
                o.set_fail("C15:reload-of-unknown-file-index", format!("attempt at tick {t} used file index {idx} of {nfiles}"), vec![]);
                return o;
            }
            if *ok != loadable[*idx] {
                o.set_fail(
                    if *ok { "C15:reload-of-unloadable-file-reported-success" } else { "C15:loadable-file-not-reloaded" },
                    format!("attempt at tick {t} on cfg{idx} (fault {fault} on cfg{target}, loadable={}) reported {}; notifications {}", loadable[*idx], if *ok { "success" } else { "failure" }, a.notes.iter().map(|(t, m)| format!("{t}:{m}")).collect::<Vec<_>>().join(" ")),
                    vec![],
                );
                return o;
            }
        }
        let before_cont: Vec<&(u64, bool, usize)> = a.attempts.iter().filter(|x| x.0 <= cont_tick || cont_tick == 0).collect();
        if let Some(last) = before_cont.last() {
            // (a successful reload discards the input still queued in the old layout, so a second
            // request made before the first one was served may be lost with it)
            let any_ok_before_last = before_cont[..before_cont.len() - 1].iter().any(|x| x.1) || last.1;
            // (with two presses, the second request is only known to have been registered when a
            // second attempt is seen; a press can be lost to the known custom-event collisions)
            let all_presses_seen = presses == 1 || before_cont.len() >= presses;
            if !all_presses_seen {
                o.count("twice.second-request-not-observed", 1);
            }
            // every attempt loads the file the request(s) registered since the previous attempt lead
            // to, starting from the file in effect: a failed reload leaves the file in effect (and
            // the position for next / prev) unchanged, a successful one moves it
            let step = |i: usize| -> usize {
                if req == "lrld" {
                    i
                } else if req == "lrld-next" {
                    (i + 1) % nfiles
                } else if req == "lrld-prev" {
                    (i + nfiles - 1) % nfiles
                } else {
                    req.trim_end_matches(')').rsplit(' ').next().and_then(|n| n.parse::<usize>().ok()).map(|n| n - 1).unwrap_or(0)
                }
            };
            let (mut cur, mut loaded, mut used) = (0usize, 0usize, 0usize);
            let mut consistent = true;
            for (_, ok, idx) in before_cont.iter().map(|x| **x) {
                let mut i = cur;
                let mut found = None;
                for k in 1..=(presses - used.min(presses)).max(1) {
                    i = step(i);
                    if i == idx {
                        found = Some(k);
                        break;
                    }
                }
                match found {
                    Some(k) => used += k,
                    None => consistent = false,
                }
                if ok {
                    loaded = idx;
                    cur = idx;
                } else {
                    cur = loaded;
                }
            }
            let _ = (any_ok_before_last, last, &model_idx);
            if !consistent || used > presses.max(before_cont.len()) {
                o.set_fail("C15:wrong-file-reloaded", format!("request {req} x{presses} over {nfiles} files: attempts (tick, ok, file) {:?} do not follow from the file in effect and the requests; requests seen at {:?}; still pending at the end: {}; current index {}", before_cont, a.requests, a.k.verif_live_reload_requested(), a.k.cur_cfg_idx), vec![]);
                return o;
            }
        }
        let succeeded: Vec<u64> = before_cont.iter().filter(|x| x.1).map(|x| x.0).collect();
        // the file that is active when the continuation starts
        let active_idx: Option<usize> = before_cont.iter().filter(|x| x.1).map(|x| x.2).last();
        if before_cont.is_empty() {
            // the request was still (legitimately) pending when the continuation began, e.g. behind a
            // virtual key held for a duration: what follows is neither a failed nor a completed reload
            o.count("request.served-only-during-the-continuation", 1);
            return o;
        }
        let target = active_idx.unwrap_or(target);
        let target_ok = active_idx.is_some();
        o.count(if target_ok { "outcome.reloaded" } else { "outcome.reload-failed" }, 1);
        let show_notes = || a.notes.iter().map(|(t, m)| format!("{t}:{m}")).collect::<Vec<_>>().join(" ");
        if !target_ok {
            // ---------------- failed reload
            if !succeeded.is_empty() {
                o.set_fail("C15:reload-of-unloadable-file-reported-success", format!("fault {fault}: notifications {}", show_notes()), vec![]);
                return o;
            }
            if a.notes.iter().any(|(t, m)| m.starts_with("ConfigFileReload") && *t >= a.requests[0] && *t <= cont_tick) {
                o.set_fail("C15:notification-for-failed-reload", format!("fault {fault}: {}", show_notes()), vec![]);
                return o;
            }
            // the file in effect is still the first one: a later plain reload (lrld) must reload
            // that one, not the file that failed to load
            if a.k.cur_cfg_idx != 0 {
                o.set_fail(
                    "C15:failed-reload-changed-the-current-file",
                    format!("request {req}, fault {fault}: nothing was reloaded but kanata's current file is now #{} ({}): the next lrld reloads the broken file instead of the one in effect", a.k.cur_cfg_idx, paths.get(a.k.cur_cfg_idx).map(|p| p.display().to_string()).unwrap_or_default()),
                    vec![],
                );
                return o;
            }
            // twin: the request key pushes a message instead
            let twin_files: Vec<(String, String)> = case
                .files
                .iter()
                .map(|(n, c)| if n == "cfg0.kbd" { (n.clone(), twin_text(c, &req)) } else { (n.clone(), c.clone()) })
                .collect();
            let dir_b = Scratch::new("b");
            let paths_b = setup_files(&dir_b, &twin_files);
            let mut b = match Sim::new(paths_b, chan_cap) {
                Ok(s) => s,
                Err(_) => return RunOut::skip("twin-config-rejected"),
            };
            for (i, op) in case.ops.iter().enumerate() {
                b.apply(i, op);
            }
            let same = a.outs.len() == b.outs.len() && a.outs.iter().zip(b.outs.iter()).all(|(x, y)| x.t == y.t && x.kind == y.kind && x.key == y.key);
            if !same {
                let i = a.outs.iter().zip(b.outs.iter()).position(|(x, y)| !(x.t == y.t && x.kind == y.kind && x.key == y.key)).unwrap_or(a.outs.len().min(b.outs.len()));
                let f = |t: &Vec<OutEv>| outs_short(&t.iter().skip(i.saturating_sub(2)).take(8).cloned().collect::<Vec<_>>());
                o.set_fail(
                    "C15:failed-reload-changed-behaviour",
                    format!("fault {fault} on cfg{target}, request {req} at tick {:?}: output #{i} differs from the run in which the key only pushes a message: with request [{}] without [{}]; ops: {}", a.requests, f(&a.outs), f(&b.outs), ops_short(&case.ops)),
                    vec![format!("fault:{fault}")],
                );
                return o;
            }
            o.count("failed-reload.judged", 1);
        } else {
            // ---------------- successful reload
            if succeeded.is_empty() {
                o.set_fail("C15:loadable-file-not-reloaded", format!("request {req}, target cfg{target} parses, but no reload was reported; attempts {:?} notifications {}", a.attempts, show_notes()), vec![]);
                return o;
            }
            if succeeded.len() > a.requests.len() {
                o.set_fail("C15:more-reloads-than-requests", format!("requests at {:?}, reloads at {:?}", a.requests, succeeded), vec![]);
                return o;
            }
            // applied only with nothing down at the OS, or >= 1000 ms after the request
            for (n, t) in succeeded.iter().enumerate() {
                let down = a.down_at_apply.get(n).cloned().unwrap_or_default();
                let since = t - a.requests.iter().copied().filter(|r| r <= t).max().unwrap_or(0);
                if !down.is_empty() && since < 1000 {
                    // output kanata had no state for when it decided to reload (neither a key state
                    // nor the custom state of the action that pressed it): it was lost earlier (see
                    // the C01 findings); the reload neither caused nor could wait for it
                    let mut tags = vec![];
                    if a.unaware_at_apply.get(n).copied().unwrap_or(false) {
                        tags.push("output-already-stuck-before-request".to_string());
                    }
                    o.set_fail("C15:reloaded-while-keys-down", format!("reload applied at tick {t}, {since} ms after the request, with {down:?} down at the OS: {}", outs_short(&a.outs)), tags);
                    return o;
                }
                if !down.is_empty() {
                    o.count("applied-by-the-1000ms-fallback", 1);
                }
            }
            // notifications: ConfigFileReload(target) then LayerChange(first layer of the new config)
            let t_apply = *succeeded.last().unwrap();
            let at: Vec<&String> = a.notes.iter().filter(|(t, _)| *t == t_apply).map(|(_, m)| m).collect();
            let want_file = format!("ConfigFileReload:cfg{target}.kbd");
            let first_layer = first_layer_name(&std::fs::read_to_string(&paths[target]).unwrap_or_default());
            let want_layer = format!("LayerChange:{}", first_layer.clone().unwrap_or_default());
            let pos_f = at.iter().position(|m| **m == want_file);
            let pos_l = at.iter().rposition(|m| **m == want_layer);
            if pos_f.is_none() {
                o.set_fail("C15:reload-notification-missing", format!("expected {want_file} at tick {t_apply}; got {}", show_notes()), vec![]);
                return o;
            }
            if first_layer.is_some() && chan_cap > 1 && (pos_l.is_none() || pos_l < pos_f) {
                o.set_fail("C15:layer-notification-missing", format!("expected {want_file} then {want_layer} at tick {t_apply}; got {}", show_notes()), vec![]);
                return o;
            }
            // nothing stays pressed: within a few ms of the reload the OS has nothing down
            {
                let mut d = DownSet::default();
                let mut last_nonempty = 0u64;
                for e in &a.outs {
                    if e.t > t_apply + 5 && e.t < cont_tick.max(t_apply + 6) {
                        // (outputs between reload and continuation are judged below via emptiness)
                    }
                    d.apply(e);
                    if e.t <= cont_tick && !d.is_empty() {
                        last_nonempty = e.t;
                    }
                }
                let _ = last_nonempty;
                let mut d2 = DownSet::default();
                for e in a.outs.iter().filter(|e| e.t < cont_tick.max(t_apply + 20)) {
                    d2.apply(e);
                }
                if cont_tick > t_apply + 20 && !d2.is_empty() {
                    // was it already down when the reload was applied by the idle fallback?
                    let at_apply = a.down_at_apply.last().cloned().unwrap_or_default();
                    let mut tags = vec![];
                    if !at_apply.is_empty() && d2.keys.iter().chain(d2.buttons.iter()).all(|k| at_apply.contains(k)) {
                        tags.push("down-when-applied-by-idle-fallback".to_string());
                    }
                    o.set_fail("C15:key-stuck-after-reload", format!("{:?} {:?} still down at the OS {} ms after the reload (tick {t_apply}; down at that moment: {at_apply:?}): {}", d2.keys, d2.buttons, cont_tick - t_apply, outs_short(&a.outs)), tags);
                    return o;
                }
            }
            // from the reload on == a freshly started instance of the new file given the same input
            // (everything that arrives after the reload, e.g. the release of the request key, is fed
            // to the fresh instance too, at the same offsets)
            let last_ok_n = a.attempts.iter().rposition(|x| x.1 && (x.0 <= cont_tick || cont_tick == 0)).unwrap_or(0);
            let (op_i, done) = a.attempt_pos.get(last_ok_n).copied().unwrap_or((usize::MAX, 0));
            let applied_with_keys_down = a.down_at_apply.last().map(|d| !d.is_empty()).unwrap_or(false);
            let reloaded_again = a.attempts.iter().any(|x| x.0 > t_apply);
            if op_i < case.ops.len() && !applied_with_keys_down && !reloaded_again {
                let new_txt = std::fs::read_to_string(&paths[target]).unwrap_or_default();
                let dir_c = Scratch::new("c");
                let mut fresh_files: Vec<(String, String)> = vec![("cfg0.kbd".to_string(), new_txt)];
                for (n, c) in &case.files {
                    if !n.starts_with("cfg") {
                        fresh_files.push((n.clone(), c.clone()));
                    }
                }
                let paths_c = setup_files(&dir_c, &fresh_files);
                let mut c = match Sim::new(paths_c, chan_cap) {
                    Ok(s) => s,
                    Err(_) => return RunOut::skip("fresh-instance-rejected"),
                };
                // what a configuration determines is the same in both instances (these fields do not
                // change while kanata runs)
                {
                    let (x, y) = (&a.k, &c.k);
                    let mut diffs: Vec<String> = vec![];
                    if x.switch_max_key_timing != y.switch_max_key_timing {
                        diffs.push(format!("switch_max_key_timing {} vs {}", x.switch_max_key_timing, y.switch_max_key_timing));
                    }
                    if x.sequence_timeout != y.sequence_timeout {
                        diffs.push(format!("sequence_timeout {} vs {}", x.sequence_timeout, y.sequence_timeout));
                    }
                    if x.sequence_input_mode != y.sequence_input_mode {
                        diffs.push("sequence_input_mode".into());
                    }
                    if x.sequence_always_on != y.sequence_always_on {
                        diffs.push("sequence_always_on".into());
                    }
                    if x.sequence_backtrack_modcancel != y.sequence_backtrack_modcancel {
                        diffs.push("sequence_backtrack_modcancel".into());
                    }
                    let vk = |k: &Kanata| {
                        let mut v: Vec<(String, usize)> = k.virtual_keys.iter().map(|(n, i)| (n.clone(), *i)).collect();
                        v.sort();
                        v
                    };
                    if vk(x) != vk(y) {
                        diffs.push("virtual_keys".into());
                    }
                    let names = |k: &Kanata| k.layer_info.iter().map(|l| l.name.clone()).collect::<Vec<_>>();
                    if names(x) != names(y) {
                        diffs.push("layer names".into());
                    }
                    if !diffs.is_empty() {
                        o.set_fail(
                            "C15:reloaded-configuration-state-differs-from-fresh-start",
                            format!("after reloading cfg{target} these configuration-determined fields differ from a freshly started instance of the same file (reloaded vs fresh): {}", diffs.join("; ")),
                            vec![],
                        );
                        return o;
                    }
                }
                let base_c = c.now;
                if let Op::Gap(n) = &case.ops[op_i] {
                    c.gap((*n as u64).saturating_sub(done));
                }
                for (i, op) in case.ops.iter().enumerate().skip(op_i + 1) {
                    match op {
                        Op::Press(_) | Op::Release(_) | Op::Gap(_) => c.apply(i, op),
                        _ => {}
                    }
                }
                // releases of keys that are not down at the OS (e.g. kanata dropping a stale key state
                // when it reloads) change nothing for the receiving application: not compared
                let visible = |evs: &mut dyn Iterator<Item = &OutEv>, base: u64| -> Vec<(u64, OutKind, String)> {
                    let mut down: Vec<String> = vec![];
                    let mut out = vec![];
                    for e in evs {
                        match e.kind {
                            OutKind::Press | OutKind::MouseDown => {
                                if !down.contains(&e.key) {
                                    down.push(e.key.clone());
                                }
                            }
                            OutKind::Release | OutKind::MouseUp => {
                                if !down.contains(&e.key) {
                                    continue;
                                }
                                down.retain(|k| *k != e.key);
                            }
                            _ => {}
                        }
                        out.push((e.t - base, e.kind.clone(), e.key.clone()));
                    }
                    out
                };
                let after_a = visible(&mut a.outs.iter().filter(|e| e.t > t_apply), t_apply);
                let after_c = visible(&mut c.outs.iter(), base_c);
                if after_a != after_c {
                    let i = after_a.iter().zip(after_c.iter()).position(|(x, y)| x != y).unwrap_or(after_a.len().min(after_c.len()));
                    let f = |t: &Vec<(u64, OutKind, String)>| t.iter().skip(i.saturating_sub(2)).take(8).map(|(t, k, key)| format!("+{t}:{k:?}:{key}")).collect::<Vec<_>>().join(" ");
                    o.set_fail(
                        "C15:reloaded-instance-differs-from-fresh-start",
                        format!("after reloading cfg{target} (tick {t_apply}) output #{i} differs from a freshly started instance of the same file fed with the same subsequent input: reloaded [{}] fresh [{}]; ops from the reload on: (+{} ms) {}", f(&after_a), f(&after_c), if let Op::Gap(n) = &case.ops[op_i] { (*n as u64).saturating_sub(done) } else { 0 }, ops_short(&case.ops[op_i + 1..])),
                        vec![],
                    );
                    return o;
                } else {
                    o.count("continuation.judged", 1);
                }
            } else {
                o.count("continuation.not-comparable", 1);
            }
            let _ = out_idx_at_cont;
            o.count("successful-reload.judged", 1);
        }
        if want_sample {
            o.sample = Some(sample_json(case, &a.outs, json!({"requests": a.requests, "attempts": a.attempts.iter().map(|x| json!([x.0, x.1])).collect::<Vec<_>>(), "notifications": a.notes.iter().map(|(t, m)| format!("{t}:{m}")).collect::<Vec<_>>()})));
        }
        o
    }
    fn assumptions(&self) -> Vec<String> {
        vec![
            "the processing loop thread itself is not run: its per-iteration time handling (handle_time_ticks: ticks, layer-change notification, deferral and do_live_reload) is called through hook H3 once per virtual millisecond, preceded by the loop's can-block bookkeeping".into(),
            "'behaves as if no reload had been requested' = the same history on a twin configuration whose request key carries (push-msg ...) (same engine footprint, no reload)".into(),
            "state that survives a reload by design (recorded dynamic macros, clipboard) is kept out of the generated configurations".into(),
            "whether the target is loadable is decided by parsing the same file with the same parser (the property is about what reload does with that verdict)".into(),
        ]
    }
}

/// the twin configuration: request action replaced by a message push
fn twin_text(cfg: &str, req: &str) -> String {
    // the request action is the last action of every deflayer line (generated that way)
    let mut out = String::new();
    for line in cfg.lines() {
        if line.starts_with("(deflayer ") && line.trim_end().ends_with(&format!(" {req})")) {
            let cut = line.trim_end().len() - req.len() - 1;
            out.push_str(&line[..cut]);
            out.push_str("(push-msg zz))");
        } else {
            out.push_str(line);
        }
        out.push('\n');
    }
    out
}

fn first_layer_name(cfg: &str) -> Option<String> {
    let forms = crate::sx::parse_top(cfg)?;
    for f in &forms {
        match f.head() {
            Some("deflayer") => return f.list()?.get(1)?.atom().map(|s| s.to_string()),
            Some("deflayermap") => return f.list()?.get(1)?.list()?.first()?.atom().map(|s| s.to_string()),
            _ => {}
        }
    }
    None
}
