//! C16 — configuration abstractions are transparent: indirection never changes behaviour.
//!
//! Differential: the generated configuration and a rewritten version of it (semantically neutral
//! indirection applied at random sites) are parsed (accepted iff accepted) and driven, one after the
//! other on fresh instances, by the same seeded history; the output traces must be identical tick for
//! tick, and so must the parsed key sets.

use super::common::*;
use super::*;
use crate::exec_a::*;
use crate::gen::*;
use crate::ops::*;
use crate::sx::*;
use crate::trace::*;
use serde_json::json;

pub struct C16;

/// index of the first deflayer / deflayermap form
fn first_layer_idx(forms: &[SX]) -> usize {
    forms.iter().position(|f| matches!(f.head(), Some("deflayer") | Some("deflayermap"))).unwrap_or(forms.len())
}

/// (form index, item index) of every action position in deflayer forms
fn layer_sites(forms: &[SX]) -> Vec<(usize, usize)> {
    let mut v = vec![];
    for (fi, f) in forms.iter().enumerate() {
        if f.head() == Some("deflayer") {
            if let Some(l) = f.list() {
                for ii in 2..l.len() {
                    // (calls that expand to nothing are not actions)
                    let empty_call = matches!(l[ii].head(), Some("t!") | Some("template-expand")) && l[ii].list().and_then(|x| x.get(1)).and_then(|x| x.atom()).map(|n| n.starts_with("ze")).unwrap_or(false);
                    if !empty_call {
                        v.push((fi, ii));
                    }
                }
            }
        }
    }
    v
}

fn set_item(forms: &mut [SX], fi: usize, ii: usize, new: SX) {
    if let SX::L(v) = &mut forms[fi] {
        v[ii] = new;
    }
}
fn get_item(forms: &[SX], fi: usize, ii: usize) -> SX {
    forms[fi].list().map(|l| l[ii].clone()).unwrap_or(a("XX"))
}

/// numeric atoms inside an action (path from the action root)
fn numeric_sites(act: &SX) -> Vec<Vec<usize>> {
    let mut out = vec![];
    let mut path = vec![];
    act.walk(&mut path, &mut |p, n| {
        if let Some(s) = n.atom() {
            if !p.is_empty() && *p.last().unwrap() > 0 && s.parse::<u64>().is_ok() && s.len() >= 2 {
                out.push(p.to_vec());
            }
        }
    });
    out
}

/// Apply one random rewrite; returns its name when it applied.
/// `ntop` = number of definitions (defvar / deftemplate) earlier rewrites have put at the top of the
/// file, in creation order: declaration order matters for them, so the next one goes right after.
fn rewrite(r: &mut Rng, forms: &mut Vec<SX>, files: &mut Vec<(String, String)>, n: usize, src: &[String], ntop: &mut usize) -> Option<&'static str> {
    let sites = layer_sites(forms);
    match r.pick_w(&[22, 14, 14, 12, 10, 10, 10, 8, 14, 10, 8]) {
        10 => {
            // action -> (t! id (t! id action)): an expansion written inside a parameter of an
            // expansion of the same template is not the template expanding itself
            let (fi, ii) = *r.pick_opt(&sites)?;
            let act = get_item(forms, fi, ii);
            let name = format!("zi{n}");
            let ti = *ntop;
            *ntop += 1;
            let mut e = act;
            for _ in 0..r.range(2, 3) {
                e = l(vec![a("t!"), a(name.clone()), e]);
            }
            set_item(forms, fi, ii, e);
            forms.insert(ti, l(vec![a("deftemplate"), a(name), l(vec![a("p")]), a("$p")]));
            Some("template-nested-in-own-parameter")
        }
        9 => {
            // a number inside an action -> $var, and the action itself -> the first argument of a
            // two-parameter template whose SECOND parameter has the very name of that variable: the
            // argument is substituted as it stands; the variable inside it is not the parameter
            let (fi, ii) = *r.pick_opt(&sites)?;
            let act = get_item(forms, fi, ii);
            if act.atom().map(|s| s.starts_with('$') || s.starts_with('@')).unwrap_or(false) {
                return None;
            }
            let ns = numeric_sites(&act);
            let p = r.pick_opt(&ns)?.clone();
            let val = act.get(&p)?.clone();
            let (vname, tname, fname) = (format!("zs{n}"), format!("zu{n}"), format!("zf{n}"));
            let act2 = act.replace_at(&p, a(format!("${vname}")));
            set_item(forms, fi, ii, l(vec![a("t!"), a(tname.clone()), act2, a("XX")]));
            let ti = *ntop;
            *ntop += 2;
            forms.insert(ti, l(vec![a("deftemplate"), a(tname), l(vec![a(fname.clone()), a(vname.clone())]), a(format!("${fname}"))]));
            forms.insert(ti, l(vec![a("defvar"), a(vname), val]));
            Some("template-arg-named-like-parameter")
        }
        8 => {
            // an expansion that yields nothing, inserted into a layer's action list (preferably in
            // front of another expansion) or between top-level forms
            let name = format!("ze{n}");
            let ti = *ntop;
            *ntop += 1;
            let call = l(vec![a(if r.chance(500) { "t!" } else { "template-expand" }), a(name.clone()), a("no")]);
            let layer_forms: Vec<usize> = forms.iter().enumerate().filter(|(_, f)| f.head() == Some("deflayer")).map(|(i, _)| i).collect();
            if r.chance(750) && !layer_forms.is_empty() {
                let fi = *r.pick(&layer_forms);
                if let SX::L(v) = &mut forms[fi] {
                    let with_exp: Vec<usize> = (2..v.len()).filter(|i| matches!(v[*i].head(), Some("t!") | Some("template-expand"))).collect();
                    let at = if !with_exp.is_empty() && r.chance(700) { *r.pick(&with_exp) } else { r.range(2, v.len() as u64) as usize };
                    v.insert(at.min(v.len()), call);
                }
            } else {
                let at = r.range(ti as u64, forms.len() as u64) as usize;
                forms.insert(at, call);
            }
            forms.insert(ti, l(vec![a("deftemplate"), a(name), l(vec![a("p")]), l(vec![a("if-equal"), a("$p"), a("yes"), a("XX")])]));
            Some("empty-expansion")
        }
        0 => {
            // action -> @alias (defined right before the layer that uses it)
            let (fi, ii) = *r.pick_opt(&sites)?;
            let act = get_item(forms, fi, ii);
            if act.atom().map(|s| s.starts_with('@') || s.starts_with('$')).unwrap_or(false) {
                return None;
            }
            let name = format!("zrw{n}");
            // every occurrence of the same action in this layer and the following ones is named by
            // the one alias (an alias shared by several keys is one action object behind the scenes)
            let mut shared = 0;
            for (fj, ij) in sites.iter().copied().filter(|(fj, _)| *fj >= fi) {
                if get_item(forms, fj, ij) == act {
                    set_item(forms, fj, ij, a(format!("@{name}")));
                    shared += 1;
                }
            }
            forms.insert(fi, l(vec![a("defalias"), a(name), act]));
            Some(if shared > 1 { "alias-shared" } else { "alias" })
        }
        1 => {
            // a number inside an action -> $var
            let (fi, ii) = *r.pick_opt(&sites)?;
            let act = get_item(forms, fi, ii);
            let ns = numeric_sites(&act);
            let p = r.pick_opt(&ns)?.clone();
            let val = act.get(&p)?.clone();
            let name = format!("zv{n}");
            set_item(forms, fi, ii, act.replace_at(&p, a(format!("${name}"))));
            // variables must be defined before they are used
            let ti = *ntop;
            *ntop += 1;
            forms.insert(ti, l(vec![a("defvar"), a(name), val]));
            Some("var-number")
        }
        2 => {
            // a whole action list -> $var holding the list
            let (fi, ii) = *r.pick_opt(&sites)?;
            let act = get_item(forms, fi, ii);
            act.list()?;
            let name = format!("zv{n}");
            let ti = *ntop;
            *ntop += 1;
            if r.chance(500) {
                // a chain of variables: $zvNb -> $zvN -> the list
                set_item(forms, fi, ii, a(format!("${name}b")));
                forms.insert(ti, l(vec![a("defvar"), a(name.clone()), act, a(format!("{name}b")), a(format!("${name}"))]));
                return Some("var-list-chain");
            }
            set_item(forms, fi, ii, a(format!("${name}")));
            forms.insert(ti, l(vec![a("defvar"), a(name), act]));
            Some("var-list")
        }
        3 => {
            // action -> template without parameters
            let (fi, ii) = *r.pick_opt(&sites)?;
            let act = get_item(forms, fi, ii);
            if act.atom().map(|s| s.starts_with('$')).unwrap_or(false) {
                return None;
            }
            let name = format!("zt{n}");
            let call = if r.chance(500) { "t!" } else { "template-expand" };
            set_item(forms, fi, ii, l(vec![a(call), a(name.clone())]));
            let ti = *ntop;
            *ntop += 1;
            forms.insert(ti, l(vec![a("deftemplate"), a(name), l(vec![]), act]));
            Some("template")
        }
        4 => {
            // action -> template with a parameter and an if-equal guard
            let (fi, ii) = *r.pick_opt(&sites)?;
            let act = get_item(forms, fi, ii);
            if act.atom().map(|s| s.starts_with('$')).unwrap_or(false) {
                return None;
            }
            let name = format!("zt{n}");
            // the argument the guards compare is written literally, or named through a variable
            let via_var = r.chance(250);
            let arg = if via_var { a(format!("$zy{n}")) } else { a("yes") };
            set_item(forms, fi, ii, l(vec![a("t!"), a(name.clone()), arg]));
            let ti = *ntop;
            *ntop += 1;
            if via_var {
                forms.insert(ti, l(vec![a("defvar"), a(format!("zy{n}")), a("yes")]));
                *ntop += 1;
            }
            let ti = if via_var { ti + 1 } else { ti };
            forms.insert(
                ti,
                l(vec![
                    a("deftemplate"),
                    a(name),
                    l(vec![a("p")]),
                    l(vec![a("if-equal"), a("$p"), a("yes"), act]),
                    l(vec![a("if-not-equal"), a("$p"), a("yes"), a("XX")]),
                ]),
            );
            Some(if via_var { "template-if-equal-with-variable-argument" } else { "template-if-equal" })
        }
        5 => {
            // a top-level form -> included file
            // (a form already wrapped in (platform ...) may move too, and a moved form may get the
            // platform wrapper inside the file: the two rewrites compose)
            let movable = |f: &SX| matches!(f.head(), Some("defalias") | Some("defvar") | Some("defvirtualkeys") | Some("deflayer") | Some("deftemplate") | Some("defoverrides") | Some("defseq") | Some("defchords"));
            let cands: Vec<usize> = forms
                .iter()
                .enumerate()
                .filter(|(_, f)| movable(f) || (f.head() == Some("platform") && f.list().and_then(|v| v.get(2)).map(|x| movable(x)).unwrap_or(false)))
                .map(|(i, _)| i)
                .collect();
            let fi = *r.pick_opt(&cands)?;
            let name = format!("zinc{n}.kbd");
            let mut moved = forms[fi].clone();
            let mut kind = "include";
            if moved.head() == Some("platform") {
                kind = "include-of-platform";
            } else if r.chance(350) {
                moved = l(vec![a("platform"), l(vec![a("linux")]), moved]);
                kind = "include-of-platform";
            }
            let content = print_top(&[moved]);
            files.push((name.clone(), content));
            forms[fi] = l(vec![a("include"), a(name)]);
            Some(kind)
        }
        6 => {
            // wrap in (platform (linux) ...)
            let cands: Vec<usize> = forms.iter().enumerate().filter(|(_, f)| !matches!(f.head(), Some("include") | Some("platform"))).map(|(i, _)| i).collect();
            let fi = *r.pick_opt(&cands)?;
            let plats = if r.chance(500) { vec![a("linux")] } else { vec![a("win"), a("linux"), a("macos")] };
            forms[fi] = l(vec![a("platform"), l(plats), forms[fi].clone()]);
            Some("platform")
        }
        _ => {
            // deflayer -> deflayermap over the defsrc keys
            let cands: Vec<usize> = forms.iter().enumerate().filter(|(_, f)| f.head() == Some("deflayer")).map(|(i, _)| i).collect();
            let fi = *r.pick_opt(&cands)?;
            let lst = forms[fi].list()?.to_vec();
            if lst.len() != src.len() + 2 {
                return None;
            }
            let mut v = vec![a("deflayermap"), l(vec![lst[1].clone()])];
            for (k, act) in src.iter().zip(lst[2..].iter()) {
                v.push(a(k.clone()));
                v.push(act.clone());
            }
            forms[fi] = l(v);
            Some("layer-to-layermap")
        }
    }
}

fn run_one(cfg: &str, files: &[(String, String)], ops: &[Op], tail: u64) -> Result<(Vec<OutEv>, u64, Vec<u16>), String> {
    let mut st = Stepper::new_filtered(cfg, files, Mode::Ticking)?;
    let mapped: Vec<u16> = {
        let mut v: Vec<u16> = st.mapped.as_ref().map(|m| m.iter().map(|o| o.as_u16()).collect()).unwrap_or_default();
        v.sort();
        v
    };
    st.run_ops(ops);
    st.gap(tail);
    st.finish();
    Ok((st.trace.outs.clone(), st.trace.sim_ms, mapped))
}

impl Prop for C16 {
    fn id(&self) -> &'static str {
        "C16"
    }
    fn rule_text(&self) -> String {
        "case = configuration from the general action grammar + 1-4 random neutral rewrites of it (layer action -> defalias, one alias for all keys that carry the same action; number -> defvar; action list -> defvar; action -> deftemplate / template-expand / t!, with a parameter and if-equal / if-not-equal guards, with an argument that contains a variable named like a later parameter; top-level form -> include file through the file-provider seam; (platform (linux ...) form) wrapper, also inside an included file; deflayer -> equivalent deflayermap) + one seeded history (gaps around the config's timeouts, repeats, virtual-key operations). Oracle: both texts are accepted or both rejected; the set of intercepted keys is equal; driven by the same history on fresh instances, one after the other, the output traces (tick, kind, key) are identical. non-trivial = both accepted, at least one rewrite applied and output produced; distinct = original x rewritten text hash.".into()
    }
    fn runs(&self, tier: Tier) -> u64 {
        match tier {
            Tier::Quick => 40_000,
            Tier::Thorough => 3_000_000,
        }
    }
    fn gen(&self, seed: u64, _tier: Tier) -> Case {
        let mut r = Rng::new(seed);
        let o = GenOpts { feats: feat::ALL_RUNTIME & !feat::DELAY, max_keys: 6, max_layers: 3, max_depth: 3, hostile: false };
        let spec = gen_general(&mut r, &o);
        let cfg = spec_text(&spec);
        let mut case = Case { prop: "C16".into(), seed, cfg: cfg.clone(), files: spec.files.clone(), ..Default::default() };
        let mut forms = spec.forms();
        // sometimes the same (list) action is bound to two or three keys of a layer, so that a
        // rewrite can name all of them through one alias / variable
        if r.chance(300) {
            let sites = layer_sites(&forms);
            let lists: Vec<(usize, usize)> = sites.iter().copied().filter(|(fi, ii)| get_item(&forms, *fi, *ii).list().is_some()).collect();
            if let Some((fi, ii)) = r.pick_opt(&lists).copied() {
                let act = get_item(&forms, fi, ii);
                let same_layer: Vec<(usize, usize)> = sites.iter().copied().filter(|(fj, ij)| *fj == fi && *ij != ii).collect();
                for _ in 0..r.range(1, 2) {
                    if let Some((fj, ij)) = r.pick_opt(&same_layer).copied() {
                        set_item(&mut forms, fj, ij, act.clone());
                    }
                }
                case.cfg = print_top(&forms);
            }
        }
        let mut files = spec.files.clone();
        let mut applied: Vec<&str> = vec![];
        let want = r.range(1, 4);
        let mut tries = 0;
        let mut ntop = 0usize;
        while (applied.len() as u64) < want && tries < 12 {
            tries += 1;
            if let Some(name) = rewrite(&mut r, &mut forms, &mut files, tries, &spec.src, &mut ntop) {
                applied.push(name);
            }
        }
        case.set("cfg2", print_top(&forms));
        case.set("rewrites", applied.join(","));
        case.files = files;
        case.set("min_cfg", 0);
        case.set("min_files", 0);
        let keys: Vec<u16> = spec.src.iter().map(|k| oscode_of(k)).filter(|c| *c != 0).collect();
        let ho = HistOpts {
            keys,
            max_events: 24,
            consistent: true,
            repeats: r.chance(200),
            timeouts: spec.timeouts.clone(),
            long_gap_permille: 60,
            max_gap: 3_000,
            vkeys: spec.vkeys.iter().map(|v| v.0.clone()).collect(),
            vkey_permille: if r.chance(300) { 50 } else { 0 },
            vkey_balanced: true,
            layers: spec.layer_names(),
            change_layer_permille: if r.chance(200) { 30 } else { 0 },
            ..Default::default()
        };
        case.ops = gen_history(&mut r, &ho);
        case
    }
    fn check(&self, case: &Case, want_sample: bool) -> RunOut {
        let Some(cfg2) = case.param("cfg2") else { return RunOut::skip("no-rewritten-config") };
        let rewrites = case.param("rewrites").unwrap_or("").to_string();
        if !history_consistent(&case.ops) {
            return RunOut::skip("history-not-consistent");
        }
        // the same final silence for both (computed from the original text: the rewritten one may
        // have moved its numbers into a file)
        let tail = quiescence_bound(&case.cfg, &case.ops).min(5_000);
        let a1 = run_one(&case.cfg, &case.files, &case.ops, tail);
        let a2 = run_one(cfg2, &case.files, &case.ops, tail);
        let mut o = RunOut::pass();
        for rw in rewrites.split(',').filter(|s| !s.is_empty()) {
            o.count(&format!("rewrite.{rw}"), 1);
        }
        o.sig = fnv(fnv(0, case.cfg.as_bytes()), cfg2.as_bytes());
        let tags: Vec<String> = {
            let mut t: Vec<String> = rewrites.split(',').filter(|s| !s.is_empty()).map(|s| format!("rewrite:{s}")).collect();
            t.sort();
            t.dedup();
            t
        };
        match (a1, a2) {
            (Err(_), Err(_)) => {
                RunOut::skip("both-rejected")
            }
            (Ok(_), Err(e)) => {
                o.set_fail("C16:rewritten-config-rejected", format!("the original is accepted, the rewritten text ({rewrites}) is rejected: {}\n--- rewritten:\n{cfg2}", e.lines().take(12).collect::<Vec<_>>().join(" | ")), tags);
                o
            }
            (Err(e), Ok(_)) => {
                o.set_fail("C16:rewritten-config-accepted", format!("the original is rejected ({}), the rewritten text ({rewrites}) is accepted\n--- rewritten:\n{cfg2}", e.lines().take(8).collect::<Vec<_>>().join(" | ")), tags);
                o
            }
            (Ok((t1, ms1, m1)), Ok((t2, ms2, m2))) => {
                o.sim_ms = ms1 + ms2;
                o.nontrivial = !rewrites.is_empty() && !t1.is_empty();
                if m1 != m2 {
                    o.set_fail("C16:mapped-keys-differ", format!("intercepted key sets differ after ({rewrites}): {} vs {} keys\n--- rewritten:\n{cfg2}", m1.len(), m2.len()), tags);
                    return o;
                }
                let same = t1.len() == t2.len() && t1.iter().zip(t2.iter()).all(|(x, y)| x.t == y.t && x.kind == y.kind && x.key == y.key);
                if !same {
                    let i = t1.iter().zip(t2.iter()).position(|(x, y)| !(x.t == y.t && x.kind == y.kind && x.key == y.key)).unwrap_or(t1.len().min(t2.len()));
                    let f = |t: &Vec<OutEv>| outs_short(&t.iter().skip(i.saturating_sub(2)).take(8).cloned().collect::<Vec<_>>());
                    o.set_fail("C16:behaviour-differs", format!("after ({rewrites}) output #{i} differs: original [{}] rewritten [{}] ops: {}\n--- rewritten:\n{cfg2}", f(&t1), f(&t2), ops_short(&case.ops)), tags);
                    return o;
                }
                if want_sample {
                    o.sample = Some(sample_json(case, &t1, json!({"rewrites": rewrites})));
                }
                o
            }
        }
    }
    fn assumptions(&self) -> Vec<String> {
        vec![
            "rewrites are applied to layer actions and top-level forms only; a new alias is defined right before the layer that uses it, variables and templates at the top of the file".into(),
            "the two instances run one after the other in the same process (process-global key tables are rebuilt by each parse)".into(),
            "the relation is between two programs; nothing is scheduled or faulted (scope note in DESIGN.md): the simulation contributes the differential executor and the include-file seam".into(),
        ]
    }
}
