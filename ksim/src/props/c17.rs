//! C17 — tap-dance performs exactly the action for the number of taps.

use super::common::*;
use super::*;
use crate::exec_a::*;
use crate::gen::*;
use crate::ops::*;
use crate::trace::*;
use serde_json::json;

pub struct C17;

const MARKERS: &[&str] = &["x", "y", "z", "w"];
const MARKERS_OUT: &[&str] = &["X", "Y", "Z", "W"];

impl Prop for C17 {
    fn id(&self) -> &'static str {
        "C17"
    }
    fn rule_text(&self) -> String {
        "case = tap-dance (lazy / eager) with 1-4 distinct marker actions (the first one a plain key, a one-key macro, a mouse button or XX), T in {2,5,20,200}, one other key (plain or a mouse button, i.e. a custom action only); schedules: 1-6 taps with press-to-press gaps from {T-1,T,T+1,small}, the last tap optionally held, optionally interrupted by the other key, or the other key already held before the dance and released at an arbitrary point of it, then silence. A reference function segments the presses into dances by the 'gap < T' rule and predicts the marker sequence. non-trivial = a marker was output; distinct = config x schedule hash.".into()
    }
    fn runs(&self, tier: Tier) -> u64 {
        match tier {
            Tier::Quick => 1_000_000,
            Tier::Thorough => 40_000_000,
        }
    }
    fn gen(&self, seed: u64, _tier: Tier) -> Case {
        let mut r = Rng::new(seed);
        if r.chance(50) {
            // 'two-dances' population: two tap-dance keys (eager or lazy each) tapped one after the
            // other, the second one while the first one's count is still open: pressing another key
            // ends the first count, and the second key counts its own taps from one
            let t = 100u64;
            let forms: Vec<&str> = (0..2).map(|_| if r.chance(650) { "tap-dance-eager" } else { "tap-dance" }).collect();
            let mut case = Case { prop: "C17".into(), seed, ..Default::default() };
            case.cfg = format!("(defsrc a d b)\n(deflayer l0 ({} {t} (x y z)) ({} {t} (p q r)) 1)\n", forms[0], forms[1]);
            let (a, d) = (oscode_of("a"), oscode_of("d"));
            let (n1, n2) = (r.range(1, 3), r.range(1, 3));
            let mut ops = vec![Op::Gap(2)];
            for (k, n) in [(a, n1), (d, n2)] {
                for _ in 0..n {
                    ops.push(Op::Press(k));
                    ops.push(Op::Gap(r.range(3, 10) as u32));
                    ops.push(Op::Release(k));
                    ops.push(Op::Gap(r.range(3, 12) as u32));
                }
            }
            ops.push(Op::Gap(300));
            case.ops = ops;
            case.set("pop", "two-dances");
            case.set("forms", forms.join(","));
            case.set("n1", n1);
            case.set("n2", n2);
            case.set("min_ops", 0);
            case.set("min_cfg", 0);
            case.set("min_gaps", 0);
            return case;
        }
        let eager = r.chance(450);
        let len = r.range(1, 4) as usize;
        let t = *r.pick(&[2u64, 5, 20, 200]);
        let red = *r.pick(&[0u64, 5]);
        let mut case = Case { prop: "C17".into(), seed, ..Default::default() };
        // the other key is a plain key or a mouse-button key (a custom action only)
        let b_custom = r.chance(250);
        // the first listed action is a plain key, or an action of another kind: a one-key macro, a
        // mouse button (a custom action), or no action at all
        let first_kind = *r.pick(&["key", "key", "key", "macro", "mouse", "noop"]);
        let first_kind = if first_kind == "mouse" && b_custom { "key" } else { first_kind };
        let mut acts: Vec<String> = MARKERS[..len].iter().map(|m| m.to_string()).collect();
        acts[0] = match first_kind {
            "macro" => "(macro x)".to_string(),
            "mouse" => "mrgt".to_string(),
            "noop" => "XX".to_string(),
            _ => "x".to_string(),
        };
        // optionally a tap-hold key is tapped right before the dance (concurrent-tap-hold yes): its
        // decision leaves a short pause in which the first tap of the dance has to wait
        let th_before = r.chance(200);
        case.cfg = format!(
            "(defcfg rapid-event-delay {red} concurrent-tap-hold {})\n(defsrc a b c)\n(deflayer l0 ({} {t} ({})) {} (tap-hold 0 100 v lctl))\n",
            if th_before || r.chance(300) { "yes" } else { "no" },
            if eager { "tap-dance-eager" } else { "tap-dance" },
            acts.join(" "),
            if b_custom { "mlft" } else { "1" }
        );
        case.set("b_custom", b_custom as u8);
        case.set("first_kind", first_kind);
        let (a, b) = (oscode_of("a"), oscode_of("b"));
        let n = r.range(1, 6);
        let mut ops = vec![];
        let interrupt_at = if r.chance(350) { Some(r.range(1, n)) } else { None };
        let hold_last = r.chance(300);
        // the other key may already be held when the dance starts and be released at any point of
        // it: a release is not a press, so it must not end the count
        let held_other = interrupt_at.is_none() && r.chance(300);
        if held_other {
            ops.push(Op::Press(b));
            ops.push(Op::Gap(r.range(1, 8) as u32));
        }
        if th_before {
            let c = oscode_of("c");
            ops.push(Op::Gap(2));
            ops.push(Op::Press(c));
            ops.push(Op::Gap(r.range(2, 6) as u32));
            ops.push(Op::Release(c));
            ops.push(Op::Gap(r.range(1, 4) as u32));
        }
        for i in 0..n {
            if i > 0 {
                // press-to-press gap from the grid; the release happens inside it
                let g = *r.pick(&[t.saturating_sub(1), t, t + 1, t + 2, 2, 3, t / 2 + 1, t.saturating_sub(2)]);
                let g = g.max(2);
                let rel_after = r.range(1, g - 1);
                ops.push(Op::Gap(rel_after as u32));
                ops.push(Op::Release(a));
                ops.push(Op::Gap((g - rel_after) as u32));
            }
            if interrupt_at == Some(i) && i > 0 {
                // other key tapped between taps (a is up at this point)
                ops.push(Op::Press(b));
                ops.push(Op::Gap(1));
                ops.push(Op::Release(b));
                ops.push(Op::Gap(r.range(1, 3) as u32));
            }
            ops.push(Op::Press(a));
        }
        let hold = if hold_last { t + 30 } else { r.range(1, 2) };
        ops.push(Op::Gap(hold as u32));
        ops.push(Op::Release(a));
        ops.push(Op::Gap((t + 60) as u32));
        if held_other {
            let first_a = ops.iter().position(|o| *o == Op::Press(a)).unwrap_or(0);
            // in a millisecond of its own (events sharing a millisecond queue up and are processed
            // one per tick, which would shift the processing time of the next tap)
            let gaps: Vec<usize> = (first_a..ops.len()).filter(|i| matches!(ops[*i], Op::Gap(n) if n >= 2)).collect();
            if gaps.is_empty() {
                ops.push(Op::Release(b));
            } else {
                let gi = *r.pick(&gaps);
                let Op::Gap(n) = ops[gi] else { unreachable!() };
                let k = r.range(1, n as u64 - 1) as u32;
                ops[gi] = Op::Gap(k);
                ops.insert(gi + 1, Op::Release(b));
                ops.insert(gi + 2, Op::Gap(n - k));
            }
        }
        case.ops = ops;
        case.set("eager", eager as u8);
        case.set("len", len);
        case.set("t", t);
        case.set("red", red);
        case.set("min_ops", 0);
        case.set("min_cfg", 0);
        case
    }

    fn check(&self, case: &Case, want_sample: bool) -> RunOut {
        if !history_consistent(&case.ops) {
            return RunOut::skip("history-not-consistent");
        }
        let mut st = match Stepper::new_filtered(&case.cfg, &case.files, Mode::Ticking) {
            Ok(s) => s,
            Err(_) => return RunOut::skip("parser-rejected"),
        };
        st.run_ops(&case.ops);
        st.gap(300);
        st.finish();
        if case.param("pop") == Some("two-dances") {
            let outs = st.trace.outs.clone();
            let mut o = RunOut::pass();
            o.sim_ms = st.trace.sim_ms;
            o.count("pop.two-dances", 1);
            o.sig = fnv(fnv(0, case.cfg.as_bytes()), ops_short(&case.ops).as_bytes());
            o.nontrivial = !outs.is_empty();
            if !st.down_set().is_empty() {
                o.set_fail("C17:stuck-at-end", format!("still down: {}", outs_short(&outs)), vec![]);
                return o;
            }
            let forms: Vec<&str> = case.param("forms").unwrap_or("tap-dance-eager,tap-dance-eager").split(',').collect();
            let mut want: Vec<&str> = vec![];
            for (i, (marks, n)) in [(["X", "Y", "Z"], case.param_u64("n1").unwrap_or(1)), (["P", "Q", "R"], case.param_u64("n2").unwrap_or(1))].iter().enumerate() {
                if forms[i] == "tap-dance-eager" {
                    // every tap performs its own action
                    want.extend(marks[..*n as usize].iter());
                } else {
                    // the N-th action once
                    want.push(marks[*n as usize - 1]);
                }
            }
            let got: Vec<&str> = outs.iter().filter(|e| e.kind == OutKind::Press).map(|e| e.key.as_str()).collect();
            if got != want {
                o.set_fail("C17:wrong-action-for-tap-count", format!("{} tapped {} times, then {} tapped {} times: expected {want:?}, got {got:?}: {}", forms[0], case.param("n1").unwrap_or("?"), forms[1], case.param("n2").unwrap_or("?"), outs_short(&outs)), vec![]);
            }
            if want_sample {
                o.sample = Some(sample_json(case, &outs, json!({"pop": "two-dances"})));
            }
            return o;
        }
        let mut outs = st.trace.outs.clone();
        let first_kind = case.param("first_kind").unwrap_or("key").to_string();
        if first_kind == "mouse" {
            // the right mouse button plays the role of the first marker
            for e in outs.iter_mut() {
                if e.key == "Right" && e.kind == OutKind::MouseDown {
                    e.kind = OutKind::Press;
                    e.key = "X".into();
                } else if e.key == "Right" && e.kind == OutKind::MouseUp {
                    e.kind = OutKind::Release;
                    e.key = "X".into();
                }
            }
        }
        if case.param_flag("b_custom") {
            for e in outs.iter_mut() {
                if e.key == "Left" && e.kind == OutKind::MouseDown {
                    e.kind = OutKind::Press;
                    e.key = "Kb1".into();
                } else if e.key == "Left" && e.kind == OutKind::MouseUp {
                    e.kind = OutKind::Release;
                    e.key = "Kb1".into();
                }
            }
        }
        let mut o = RunOut::pass();
        o.sim_ms = st.trace.sim_ms;
        let eager = case.param_u64("eager").unwrap_or(0) == 1;
        let len = case.param_u64("len").unwrap_or(1) as usize;
        let t = case.param_u64("t").unwrap_or(20);
        o.count(if eager { "form.eager" } else { "form.lazy" }, 1);
        let mut sig = fnv(0, case.cfg.as_bytes());
        for op in &case.ops {
            sig = fnv(sig, op.short().as_bytes());
        }
        o.sig = sig;
        let d = st.down_set();
        if !d.is_empty() {
            o.set_fail("C17:stuck-at-end", format!("keys still down: {:?}: {}", d.keys, outs_short(&outs)), vec![]);
        }
        // arrival times of a-presses and of b press
        let (a, b) = (oscode_of("a"), oscode_of("b"));
        let mut tm = 0u64;
        let mut a_press: Vec<u64> = vec![];
        let mut b_press: Vec<u64> = vec![];
        let mut a_final_release = 0u64;
        for op in &case.ops {
            match op {
                Op::Gap(n) => tm += *n as u64,
                Op::Press(c) if *c == a => a_press.push(tm),
                Op::Press(c) if *c == b => b_press.push(tm),
                Op::Release(c) if *c == a => a_final_release = tm,
                _ => {}
            }
        }
        if a_press.is_empty() {
            return RunOut::skip("history-shape-not-of-this-population");
        }
        // Reference segmentation: a press continues the current dance iff it arrives < T after the
        // previous press, no other key was pressed in between, and the list is not exhausted.
        // Time is counted when events are processed: a press that had to wait in the queue behind
        // the resolution of the previous dance (+ rapid-event-delay) starts its window late, so
        // gaps in [T, T+3+red] are ambiguous and both outcomes are accepted; everything else is
        // judged exactly.
        let red = case.param_u64("red").unwrap_or(5);
        let mut events: Vec<(u64, bool)> = a_press.iter().map(|t| (*t, true)).chain(b_press.iter().map(|t| (*t, false))).collect();
        events.sort();
        let mut boundary = false;
        fn expand(events: &[(u64, bool)], i: usize, count: usize, last_t: u64, len: usize, t: u64, red: u64, eager: bool, cur: &mut Vec<String>, out: &mut Vec<Vec<String>>, boundary: &mut bool) {
            if out.len() > 64 {
                return;
            }
            if i == events.len() {
                let mut c = cur.clone();
                if count > 0 && !eager {
                    c.push(MARKERS_OUT[count.min(len) - 1].to_string());
                }
                out.push(c);
                return;
            }
            let (tt, is_a) = events[i];
            if !is_a {
                let n0 = cur.len();
                if count > 0 && !eager {
                    cur.push(MARKERS_OUT[count.min(len) - 1].to_string());
                }
                cur.push("Kb1".to_string());
                expand(events, i + 1, 0, tt, len, t, red, eager, cur, out, boundary);
                cur.truncate(n0);
                return;
            }
            let gap = tt.saturating_sub(last_t);
            let mut options: Vec<bool> = vec![]; // true = continues the dance
            if count > 0 && count < len {
                if gap < t {
                    options.push(true);
                } else if gap <= t + 3 + red {
                    *boundary = true;
                    options.push(true);
                    options.push(false);
                } else {
                    options.push(false);
                }
            } else {
                options.push(false);
            }
            for cont in options {
                let n0 = cur.len();
                let mut c = count;
                if cont {
                    c += 1;
                } else {
                    if c > 0 && !eager {
                        cur.push(MARKERS_OUT[c.min(len) - 1].to_string());
                    }
                    c = 1;
                }
                if eager {
                    cur.push(MARKERS_OUT[c - 1].to_string());
                    if c >= len {
                        c = 0;
                    }
                } else if c >= len {
                    cur.push(MARKERS_OUT[len - 1].to_string());
                    c = 0;
                }
                expand(events, i + 1, c, tt, len, t, red, eager, cur, out, boundary);
                cur.truncate(n0);
            }
        }
        let mut all_expected: Vec<Vec<String>> = vec![];
        expand(&events, 0, 0, 0, len, t, red, eager, &mut vec![], &mut all_expected, &mut boundary);
        if first_kind == "noop" {
            for seq in all_expected.iter_mut() {
                seq.retain(|k| k != "X");
            }
        }
        let expected = all_expected.clone();
        let got: Vec<String> = outs.iter().filter(|e| e.kind == OutKind::Press && e.key != "V").map(|e| e.key.clone()).collect();
        o.nontrivial = !got.is_empty();
        if boundary {
            o.count("boundary.tap-exactly-at-timeout", 1);
        }
        if !all_expected.contains(&got) && !o.failed() {
            o.set_fail(
                "C17:wrong-actions",
                format!(
                    "{} T={t} list-length={len}: presses of the tap-dance key at {a_press:?}, other key at {b_press:?}: expected press sequence {expected:?}, got {got:?}: {}",
                    if eager { "eager" } else { "lazy" },
                    outs_short(&outs)
                ),
                if boundary { vec!["tap-exactly-at-timeout".into()] } else { vec![] },
            );
        }
        // the last chosen action stays pressed until the final release (one press held)
        if !o.failed() {
            if let Some(last_marker) = outs.iter().rev().find(|e| e.kind == OutKind::Press && e.key != "Kb1").filter(|e| !(first_kind == "macro" && e.key == "X")).filter(|_| first_kind != "noop") {
                let rel = outs.iter().rev().find(|e| e.kind == OutKind::Release && e.key == last_marker.key).map(|e| e.t).unwrap_or(0);
                if rel <= a_final_release && rel >= last_marker.t {
                    o.set_fail("C17:released-before-final-release", format!("last action {} released at {rel}, the key's final release arrives at {a_final_release}: {}", last_marker.key, outs_short(&outs)), vec![]);
                }
            }
        }
        if want_sample {
            o.sample = Some(sample_json(case, &outs, json!({"eager": eager, "len": len, "T": t, "expected": expected})));
        }
        o
    }
    fn assumptions(&self) -> Vec<String> {
        vec!["'within the timeout' = the next press arrives < T ms after the previous press (DESIGN.md D5); a press arriving exactly T ms later starts a new dance".into()]
    }
}
