//! C18 — virtual keys obey press / release / tap / toggle and their timed forms.

use super::common::*;
use super::*;
use crate::exec_a::*;
use crate::gen::*;
use crate::ops::*;
use crate::trace::*;
use serde_json::json;

pub struct C18;

// trigger keys (defsrc) and what they do to vk1
const TRIG: &[(&str, &str, &str)] = &[
    // (physical key, when, operation)
    ("a", "press", "press"),
    ("b", "press", "release"),
    ("c", "press", "tap"),
    ("d", "press", "toggle"),
    ("e", "release", "press"),
    ("f", "release", "release"),
    ("g", "release", "toggle"),
    ("h", "press", "macro-tap"),
];

impl Prop for C18 {
    fn id(&self) -> &'static str {
        "C18"
    }
    fn rule_text(&self) -> String {
        "case = 1-3 virtual keys (payload key / layer-while-held / macro) operated through on-press, on-release (new and legacy fakekey syntax), a macro item, a sequence and TCP-style ActOnFakeKey ops; populations: 'state' (random press/release/tap/toggle operations, reference state down/up followed by the payload marker within 3 ms, whichever trigger is used), 'hold-for-duration' (D-1/D/D+1 re-arming, exact release tick, one press and one release), 'hfd-mixed' (hold-for-duration on a key that other keys press / release / tap / toggle meanwhile, against a reference of down-intervals), 'macro-collision' (a macro that presses a virtual key, types under it and releases it while another key operates a second virtual key at every offset: all four outputs of the macro and the other key's operation happen), 'on-idle' (fires once, not before the idle time has accumulated since the last input - OS repeats of a held key or layer hold included -, not again until re-armed). non-trivial = the payload marker changed state at least once; distinct = config x history hash.".into()
    }
    fn runs(&self, tier: Tier) -> u64 {
        match tier {
            Tier::Quick => 400_000,
            Tier::Thorough => 15_000_000,
        }
    }
    fn gen(&self, seed: u64, _tier: Tier) -> Case {
        let mut r = Rng::new(seed);
        let pop = *r.pick(&["state", "state", "hfd", "idle"]);
        let mut case = Case { prop: "C18".into(), seed, ..Default::default() };
        if r.chance(30) {
            // 'on-idle-chain' population: the virtual key tapped by an on-idle action arms another
            // on-idle itself (no key event in between), and the loop may be late (2 / 5 / 10 ms per
            // iteration): the second one fires only after its own idle time, not on the idle
            // time the first one had already collected
            let t = *r.pick(&[30u64, 50, 120]);
            let batch = *r.pick(&[1u64, 2, 5, 10]);
            case.cfg = format!("(defsrc a)\n(defvirtualkeys v1 x v2 (multi y (on-idle {t} tap-vkey v1)))\n(deflayer l0 (on-idle {t} tap-vkey v2))\n");
            let a = oscode_of("a");
            case.ops = vec![Op::Gap(2), Op::Press(a), Op::Gap(r.range(2, 20) as u32), Op::Release(a), Op::Gap((4 * t + 50) as u32)];
            case.set("pop", "on-idle-chain");
            case.set("t", t);
            case.set("batch", batch);
            case.set("min_ops", 0);
            case.set("min_cfg", 0);
            case.set("min_gaps", 0);
            return case;
        }
        if r.chance(60) {
            // 'tcp-race' population (executor B): a TCP-client task operates virtual keys while the
            // real processing-loop thread runs and a feeder types; interleavings, step costs and
            // stalls are decided by the seeded scheduler
            case.cfg = "(defsrc a b)\n(defvirtualkeys vk1 1 vk2 2)\n(deflayer l0 x (tap-hold 20 20 y lctl))\n".to_string();
            let (ka, kb) = (oscode_of("a"), oscode_of("b"));
            let mut ops = vec![Op::Gap(2)];
            let mut down: Vec<u16> = vec![];
            // rounds: at most one operation per virtual key per round, typing in between, and every
            // round lasts >= 90 ms, so that consecutive operations on the same key are further apart
            // than the longest injected stall (toggle / tap act on the state at the moment they land)
            for _ in 0..r.range(2, 7) {
                let mut spent = 0u32;
                let mut names = vec!["vk1", "vk2"];
                r.shuffle(&mut names);
                names.truncate(r.range(1, 2) as usize);
                for name in names {
                    ops.push(Op::Vkey(name.to_string(), r.below(4) as u8));
                    let g = *r.pick(&[0u32, 0, 1, 2]);
                    ops.push(Op::Gap(g));
                    spent += g;
                    for _ in 0..r.range(0, 2) {
                        let k = if r.chance(500) { ka } else { kb };
                        if down.contains(&k) {
                            ops.push(Op::Release(k));
                            down.retain(|x| *x != k);
                        } else {
                            ops.push(Op::Press(k));
                            down.push(k);
                        }
                        let g = *r.pick(&[0u32, 1, 1, 3, 25]);
                        ops.push(Op::Gap(g));
                        spent += g;
                    }
                }
                ops.push(Op::Gap(90u32.saturating_sub(spent).max(60)));
            }
            for k in down {
                ops.push(Op::Release(k));
                ops.push(Op::Gap(1));
            }
            ops.push(Op::Gap(300));
            case.ops = ops;
            case.set("pop", "tcp-race");
            case.set("b_seed", r.next_u64());
            case.set("b_mode", *r.pick(&["jitter", "stall", "stall"]));
            case.set("min_cfg", 0);
            case.set("min_ops", 0);
            case.set("min_gaps", 0);
            return case;
        }
        if r.chance(100) {
            // 'macro-collision' population: a macro presses, types under and releases a virtual key
            // while another key operates a second virtual key, at every offset: a virtual-key step
            // of the macro must take effect also when it falls into the tick of the other key's
            // action (at most one custom event is delivered per tick)
            // (delays of >= 4 ms: a step that has to wait one tick for the other key's event - the
            // documented C08 known finding - still keeps its place in the order)
            let (d1, d2, d3) = (r.range(4, 12), r.range(4, 12), r.range(4, 12));
            let b_act = *r.pick(&["(on-press tap-vkey vk2)", "(on-press press-vkey vk2)", "(on-press toggle-vkey vk2)", "(multi (on-press press-vkey vk2) (on-release release-vkey vk2))"]);
            case.cfg = format!(
                "(defsrc a b)\n(defvirtualkeys vk1 lctl vk2 lalt)\n(deflayer l0 (macro {d1} (on-press press-vkey vk1) {d2} x {d3} (on-press release-vkey vk1)) {b_act})\n"
            );
            let (ka, kb) = (oscode_of("a"), oscode_of("b"));
            let total = d1 + d2 + d3 + 8;
            let off = r.range(0, total);
            let mut ops = vec![Op::Gap(2), Op::Press(ka)];
            if off > 0 {
                ops.push(Op::Gap(off as u32));
            }
            ops.push(Op::Press(kb));
            // the releases come long after the macro has ended, far apart from each other
            ops.push(Op::Gap((total + 40) as u32));
            ops.push(Op::Release(ka));
            ops.push(Op::Gap(30));
            ops.push(Op::Release(kb));
            ops.push(Op::Gap(100));
            if b_act.contains("press-vkey vk2)") && !b_act.contains("release-vkey") || b_act.contains("toggle") {
                // let go of the latched second virtual key
                ops.push(Op::Vkey("vk2".into(), 1));
                ops.push(Op::Gap(50));
            }
            case.ops = ops;
            case.set("pop", "macro-collision");
            case.set("min_cfg", 0);
            case.set("min_ops", 0);
            case.set("min_gaps", 0);
            return case;
        }
        if r.chance(80) {
            // 'hfd-mixed' population: hold-for-duration on a virtual key that other keys press,
            // release, tap and toggle meanwhile; operations 15 / 40 / 160 ms apart with D = 100, so
            // every outcome is far from a boundary
            // each explicit operation is bound to the press or to the release of its key
            let forms: Vec<&str> = (0..4).map(|_| if r.chance(500) { "on-press" } else { "on-release" }).collect();
            // k: (release-key 1) lets go of the virtual key's output key (the virtual key is up
            // afterwards); s c d: a sequence whose virtual key is vk1 (a tap "triggered from a
            // sequence"); "gg": two toggles within the same millisecond
            // optionally with chords v2 configured (never used): every event then passes through its
            // queue first, which must not change what the virtual key operations do
            let chv2 = r.chance(300);
            case.cfg = format!(
                "{}(defsrc a p r t g k s c d m y z n)\n(defvirtualkeys vk1 1)\n(defseq vk1 (c d))\n(deflayer l0 (hold-for-duration 100 vk1) ({} press-vkey vk1) ({} release-vkey vk1) ({} tap-vkey vk1) ({} toggle-vkey vk1) (release-key 1) sldr c d (multi (on-press press-vkey vk1) (on-release release-vkey vk1)) y z (multi (on-press toggle-vkey vk1) (on-press toggle-vkey vk1)))\n",
                if chv2 { "(defcfg concurrent-tap-hold yes)\n(defchordsv2 (y z) 2 50 first-release ())\n" } else { "" },
                forms[0], forms[1], forms[2], forms[3]
            );
            case.set("forms", forms.join(","));
            let mut ops = vec![Op::Gap(2)];
            for _ in 0..r.range(2, 7) {
                let name = *r.pick(&["a", "a", "a", "a", "p", "r", "r", "t", "g", "k", "k", "seq", "seq", "gg", "m", "mm", "n"]);
                match name {
                    "seq" => {
                        for kn in ["s", "c", "d"] {
                            ops.push(Op::Press(oscode_of(kn)));
                            ops.push(Op::Gap(3));
                            ops.push(Op::Release(oscode_of(kn)));
                            if kn != "d" {
                                ops.push(Op::Gap(3));
                            }
                        }
                    }
                    "mm" => {
                        // m presses the virtual key on press and releases it on release: both within
                        // one millisecond (the release must not be lost because the press is still queued)
                        let m = oscode_of("m");
                        ops.extend([Op::Press(m), Op::Release(m)]);
                    }
                    "gg" => {
                        let g = oscode_of("g");
                        ops.extend([Op::Press(g), Op::Release(g), Op::Press(g), Op::Release(g)]);
                    }
                    _ => {
                        let k = oscode_of(name);
                        ops.push(Op::Press(k));
                        ops.push(Op::Gap(3));
                        ops.push(Op::Release(k));
                    }
                }
                ops.push(Op::Gap(*r.pick(&[12u32, 37, 157])));
            }
            // leave it released
            ops.push(Op::Press(oscode_of("r")));
            ops.push(Op::Gap(3));
            ops.push(Op::Release(oscode_of("r")));
            ops.push(Op::Gap(200));
            case.ops = ops;
            case.set("pop", "hfd-mixed");
            case.set("min_ops", 0);
            case.set("min_cfg", 0);
            case.set("min_gaps", 0);
            return case;
        }
        let legacy = r.chance(300);
        let red = *r.pick(&[0u64, 5]);
        match pop {
            "state" => {
                // payload of vk1: key 1 or layer l1 (then physical k => 3 instead of 2)
                let payload_layer = r.chance(300);
                let mut acts: Vec<String> = vec![];
                for (_, when, op) in TRIG {
                    let a = match (*when, *op, legacy) {
                        (_, "macro-tap", _) => "(macro (on-press tap-vkey vk1))".to_string(),
                        ("press", o, false) => format!("(on-press {o}-vkey vk1)"),
                        ("release", o, false) => format!("(on-release {o}-vkey vk1)"),
                        ("press", o, true) => format!("(on-press-fakekey vk1 {o})"),
                        (_, o, true) => format!("(on-release-fakekey vk1 {o})"),
                        _ => unreachable!(),
                    };
                    acts.push(a);
                }
                let names: Vec<&str> = TRIG.iter().map(|t| t.0).collect();
                case.cfg = format!(
                    "(defcfg rapid-event-delay {red})\n(defsrc {} k)\n(defvirtualkeys vk1 {})\n(deflayer l0 {} 2)\n(deflayer l1 {} 3)\n",
                    names.join(" "),
                    if payload_layer { "(layer-while-held l1)" } else { "1" },
                    acts.join(" "),
                    names.iter().map(|_| "_").collect::<Vec<_>>().join(" ")
                );
                case.set("payload_layer", payload_layer as u8);
                let mut ops = vec![];
                for _ in 0..r.range(1, 10) {
                    if r.chance(300) {
                        ops.push(Op::Vkey("vk1".into(), r.below(4) as u8));
                    } else {
                        let t = r.pick(TRIG);
                        let k = oscode_of(t.0);
                        ops.push(Op::Press(k));
                        ops.push(Op::Gap(r.range(3, 12) as u32));
                        ops.push(Op::Release(k));
                    }
                    ops.push(Op::Gap(r.range(8, 30) as u32));
                    if payload_layer && r.chance(400) {
                        let k = oscode_of("k");
                        ops.push(Op::Press(k));
                        ops.push(Op::Gap(3));
                        ops.push(Op::Release(k));
                        ops.push(Op::Gap(8));
                    }
                }
                // leave it released
                ops.push(Op::Vkey("vk1".into(), 1));
                ops.push(Op::Gap(40));
                case.ops = ops;
            }
            "hfd" => {
                let d = *r.pick(&[2u64, 5, 20, 100]);
                // a second trigger key holds the same virtual key for a (usually) different duration:
                // the release is due D after the most recent activation, whichever duration that was
                let d2 = if r.chance(400) { d } else { *r.pick(&[2u64, 5, 20, 100]) };
                case.cfg = format!("(defcfg rapid-event-delay {red})\n(defsrc a b)\n(defvirtualkeys vk1 1)\n(deflayer l0 (hold-for-duration {d} vk1) (hold-for-duration {d2} vk1))\n");
                case.set("d", d);
                case.set("d2", d2);
                let (ka, kb) = (oscode_of("a"), oscode_of("b"));
                let mut ops = vec![];
                let n = r.range(1, 4);
                for i in 0..n {
                    let a = if r.chance(600) { ka } else { kb };
                    ops.push(Op::Press(a));
                    let hold = r.range(1, 3);
                    ops.push(Op::Gap(hold as u32));
                    ops.push(Op::Release(a));
                    if i + 1 < n {
                        // re-arm at D-1 / D / D+1 (press-to-press) or clearly inside / outside
                        let dd = if a == ka { d } else { d2 };
                        let g = (*r.pick(&[dd.saturating_sub(1), dd, dd + 1, dd / 2 + 1, dd + 10, 3])).max(hold + 1);
                        ops.push(Op::Gap((g - hold) as u32));
                    }
                }
                ops.push(Op::Gap((d.max(d2) + 40) as u32));
                case.ops = ops;
            }
            _ => {
                let t = *r.pick(&[5u64, 30, 100]);
                // c is either a plain key or a layer hold (a held key that leaves no key state)
                let c_act = *r.pick(&["y", "(layer-while-held l1)"]);
                case.cfg = format!("(defcfg rapid-event-delay {red})\n(defsrc a b c)\n(defvirtualkeys vk1 1)\n(deflayer l0 (on-idle {t} tap-vkey vk1) x {c_act})\n(deflayer l1 _ _ _)\n");
                case.set("t", t);
                let (a, b, c) = (oscode_of("a"), oscode_of("b"), oscode_of("c"));
                let mut ops = vec![];
                for _ in 0..r.range(1, 3) {
                    if r.chance(800) {
                        ops.push(Op::Press(a));
                        ops.push(Op::Gap(r.range(1, 4) as u32));
                        ops.push(Op::Release(a));
                    }
                    // some other typing before going idle
                    for _ in 0..r.range(0, 3) {
                        let k = if r.chance(500) { b } else { c };
                        ops.push(Op::Gap((*r.pick(&[2u64, t.saturating_sub(1), t, t + 1, 10])).max(2) as u32));
                        ops.push(Op::Press(k));
                        ops.push(Op::Gap(r.range(2, 6) as u32));
                        ops.push(Op::Release(k));
                    }
                    if r.chance(350) {
                        // a key is held and the OS keeps sending its repeats at intervals shorter
                        // than the idle time: every repeat is input, so kanata is not idle
                        ops.push(Op::Gap(r.range(2, 6) as u32));
                        ops.push(Op::Press(c));
                        for _ in 0..r.range(3, 8) {
                            let g = (*r.pick(&[t / 2 + 1, t.saturating_sub(1), 2, 10])).min(t.saturating_sub(1)).max(1);
                            ops.push(Op::Gap(g as u32));
                            ops.push(Op::Repeat(c));
                        }
                        ops.push(Op::Gap(r.range(1, 3) as u32));
                        ops.push(Op::Release(c));
                    }
                    if r.chance(250) {
                        // a TCP client polls (a request that changes nothing, answered with a wake-up
                        // of the loop) more often than the idle time: that is not keyboard activity
                        let n = (2 * t + 40) / (t / 2 + 1).max(1);
                        for _ in 0..n {
                            ops.push(Op::Gap((t / 2 + 1) as u32));
                            ops.push(Op::Vkey("no-such-virtual-key".into(), 0));
                        }
                    }
                    ops.push(Op::Gap((t + 30 + r.range(0, 40)) as u32));
                }
                case.ops = ops;
            }
        }
        case.set("pop", pop);
        case.set("min_cfg", 0);
        case
    }

    fn check(&self, case: &Case, want_sample: bool) -> RunOut {
        if !history_consistent(&case.ops.iter().filter(|o| !matches!(o, Op::Vkey(..))).cloned().collect::<Vec<_>>()) {
            return RunOut::skip("history-not-consistent");
        }
        if case.param("pop") == Some("tcp-race") {
            return check_tcp_race(case, want_sample);
        }
        if case.param("pop") == Some("on-idle-chain") {
            let mut st = match Stepper::new_filtered(&case.cfg, &case.files, Mode::Ticking) {
                Ok(s) => s,
                Err(_) => return RunOut::skip("parser-rejected"),
            };
            let (t, batch) = (case.param_u64("t").unwrap_or(50), case.param_u64("batch").unwrap_or(1));
            st.batch = batch;
            st.run_ops(&case.ops);
            st.finish();
            let outs = st.trace.outs.clone();
            let mut o = RunOut::pass();
            o.sim_ms = st.trace.sim_ms;
            o.count("pop.on-idle-chain", 1);
            if batch > 1 {
                o.count(&format!("schedule.late-loop-{batch}ms-per-iteration"), 1);
            }
            o.sig = fnv(fnv(0, case.cfg.as_bytes()), format!("{}|{batch}", ops_short(&case.ops)).as_bytes());
            let first = |k: &str| outs.iter().find(|e| e.kind == OutKind::Press && e.key == k).map(|e| e.t);
            let n = |k: &str| outs.iter().filter(|e| e.kind == OutKind::Press && e.key == k).count();
            o.nontrivial = n("Y") > 0;
            // the last input (release of a): its arrival time
            let li: u64 = case.ops.iter().take(4).map(|op| if let Op::Gap(g) = op { *g as u64 } else { 0 }).sum();
            match (first("Y"), first("X")) {
                (Some(fy), Some(fx)) => {
                    // (a late loop counts idle time per iteration: resolution = one iteration)
                    if fy + batch < li + t {
                        o.set_fail("C18:on-idle-fired-early", format!("T={t}, {batch} ms per iteration: the first on-idle fired at {fy}, last input at {li}: {}", outs_short(&outs)), vec![]);
                    } else if fx + batch < fy + t {
                        o.set_fail("C18:on-idle-fired-early", format!("T={t}, {batch} ms per iteration: the chained on-idle was armed at {fy} and fired at {fx}: {}", outs_short(&outs)), vec![]);
                    } else if n("X") != 1 || n("Y") != 1 {
                        o.set_fail("C18:on-idle-fired-more-than-once", format!("y {} times, x {} times: {}", n("Y"), n("X"), outs_short(&outs)), vec![]);
                    }
                }
                _ => o.set_fail("C18:on-idle-did-not-fire", format!("T={t}: idle for {} ms after the last input, y fired: {:?}, x fired: {:?}: {}", 4 * t + 50, first("Y"), first("X"), outs_short(&outs)), vec![]),
            }
            if want_sample {
                o.sample = Some(sample_json(case, &outs, json!({"pop": "on-idle-chain"})));
            }
            return o;
        }
        if case.param("pop") == Some("hfd-mixed") {
            let mut st = match Stepper::new_filtered(&case.cfg, &case.files, Mode::Ticking) {
                Ok(s) => s,
                Err(_) => return RunOut::skip("parser-rejected"),
            };
            st.run_ops(&case.ops);
            st.gap(200);
            st.finish();
            let outs = st.trace.outs.clone();
            let mut o = RunOut::pass();
            o.sim_ms = st.trace.sim_ms;
            o.count("pop.hfd-mixed", 1);
            let mut sig = fnv(0, case.cfg.as_bytes());
            for op in &case.ops {
                sig = fnv(sig, op.short().as_bytes());
            }
            o.sig = sig;
            // reference: the virtual key is a key that only kanata operates. press: down until a
            // release; release: up; tap: up afterwards; toggle: the other state; hold-for-duration:
            // down until 100 ms after its most recent activation (an explicit press / release / tap /
            // toggle in between takes over: the pending timed release is void)
            let forms: Vec<&str> = case.param("forms").unwrap_or("on-press,on-press,on-press,on-press").split(',').collect();
            let mut tm = 0u64;
            let mut down = false;
            let mut deadline: Option<u64> = None;
            let mut intervals: Vec<(u64, u64)> = vec![];
            let mut release_key_during_hfd = false;
            let mut since = 0u64;
            let mut close = |down: &mut bool, since: u64, at: u64, intervals: &mut Vec<(u64, u64)>| {
                if *down {
                    intervals.push((since, at));
                    *down = false;
                }
            };
            for op in &case.ops {
                match op {
                    Op::Gap(n) => {
                        let end = tm + *n as u64;
                        if let Some(dl) = deadline {
                            if dl <= end {
                                close(&mut down, since, dl, &mut intervals);
                                deadline = None;
                            }
                        }
                        tm = end;
                    }
                    Op::Press(c) | Op::Release(c) => {
                        let mut name = ["a", "p", "r", "t", "g", "k", "d", "m", "n"].iter().find(|n| oscode_of(n) == *c).copied().unwrap_or("?");
                        if name == "m" {
                            // press-vkey on press, release-vkey on release
                            name = if matches!(op, Op::Press(_)) { "p!" } else { "r!" };
                        }
                        // the operation happens at the press or at the release of its key
                        let on_release = match name {
                            "p" => forms.first() == Some(&"on-release"),
                            "r" => forms.get(1) == Some(&"on-release"),
                            "t" => forms.get(2) == Some(&"on-release"),
                            "g" => forms.get(3) == Some(&"on-release"),
                            _ => false,
                        };
                        if !name.ends_with('!') && on_release != matches!(op, Op::Release(_)) {
                            continue;
                        }
                        let name = name.trim_end_matches('!');
                        let at = tm + 1;
                        match name {
                            "a" => {
                                if !down {
                                    down = true;
                                    since = at;
                                }
                                deadline = Some(at + 100);
                            }
                            "p" => {
                                if !down {
                                    down = true;
                                    since = at;
                                }
                                deadline = None;
                            }
                            "r" => {
                                close(&mut down, since, at, &mut intervals);
                                deadline = None;
                            }
                            "k" => {
                                // cause tag of a known finding: release-key let go of the output key
                                // while a timed release of hold-for-duration was pending
                                if deadline.is_some() {
                                    release_key_during_hfd = true;
                                }
                                close(&mut down, since, at, &mut intervals);
                                deadline = None;
                            }
                            "t" | "d" => {
                                // a tap of a key that is down releases it (and presses nothing new that lasts)
                                close(&mut down, since, at, &mut intervals);
                                intervals.push((at, at + 1));
                                deadline = None;
                            }
                            "n" => {
                                // two toggles at once: the other state and back (a blip when it was up)
                                if !down {
                                    intervals.push((at, at + 1));
                                } else {
                                    close(&mut down, since, at, &mut intervals);
                                    down = true;
                                    since = at;
                                }
                                deadline = None;
                            }
                            "g" => {
                                if down {
                                    close(&mut down, since, at, &mut intervals);
                                } else {
                                    down = true;
                                    since = at;
                                }
                                deadline = None;
                            }
                            _ => {}
                        }
                    }
                    _ => {}
                }
            }
            // (the run continues for 200 ms after the last op)
            if let Some(dl) = deadline {
                if dl <= tm + 200 {
                    close(&mut down, since, dl, &mut intervals);
                }
            }
            // observed intervals of the payload key
            let mut got: Vec<(u64, u64)> = vec![];
            let mut cur: Option<u64> = None;
            for e in outs.iter().filter(|e| e.key == "Kb1") {
                match e.kind {
                    OutKind::Press => {
                        if cur.is_none() {
                            cur = Some(e.t)
                        }
                    }
                    OutKind::Release => {
                        if let Some(s0) = cur.take() {
                            got.push((s0, e.t));
                        }
                    }
                    _ => {}
                }
            }
            o.nontrivial = !got.is_empty();
            // merge model intervals that touch (a tap right at an edge) and drop 1-tick taps that an
            // adjacent interval swallows; compare with a tolerance of 4 ticks per edge
            let norm = |v: &Vec<(u64, u64)>| -> Vec<(u64, u64)> {
                let mut out: Vec<(u64, u64)> = vec![];
                for (s0, e0) in v {
                    match out.last_mut() {
                        Some(last) if *s0 <= last.1 + 2 => last.1 = last.1.max(*e0),
                        _ => out.push((*s0, *e0)),
                    }
                }
                out
            };
            let (want, gotn) = (norm(&intervals), norm(&got));
            // (a blip - a tap, or two toggles in the same millisecond - comes out a few ticks later when
            // its events wait in the queue behind the key events of that millisecond)
            let close_enough = want.len() == gotn.len()
                && want.iter().zip(gotn.iter()).all(|(w, g)| {
                    let tol = if w.1 - w.0 <= 2 && g.1 - g.0 <= 2 { 7 } else { 4 };
                    w.0.abs_diff(g.0) <= tol && w.1.abs_diff(g.1) <= tol
                });
            let d = st.down_set();
            if !d.is_empty() {
                o.set_fail("C18:stuck-at-end", format!("still down: {:?}: {}", d.keys, outs_short(&outs)), vec![]);
            } else if !close_enough {
                let tags = if release_key_during_hfd { vec!["release-key-while-hold-for-duration-pending".to_string()] } else { vec![] };
                o.set_fail("C18:virtual-key-state-differs-from-reference", format!("payload key down-intervals: expected about {want:?}, got {gotn:?}; ops {} :: {}", ops_short(&case.ops), outs_short(&outs)), tags);
            }
            if want_sample {
                o.sample = Some(sample_json(case, &outs, json!({"pop": "hfd-mixed"})));
            }
            return o;
        }
        if case.param("pop") == Some("macro-collision") {
            let mut st = match Stepper::new_filtered(&case.cfg, &case.files, Mode::Ticking) {
                Ok(s) => s,
                Err(_) => return RunOut::skip("parser-rejected"),
            };
            st.run_ops(&case.ops);
            st.gap(200);
            st.finish();
            let outs = st.trace.outs.clone();
            let mut o = RunOut::pass();
            o.sim_ms = st.trace.sim_ms;
            o.count("pop.macro-collision", 1);
            let mut sig = fnv(0, case.cfg.as_bytes());
            for op in &case.ops {
                sig = fnv(sig, op.short().as_bytes());
            }
            o.sig = sig;
            o.nontrivial = !outs.is_empty();
            // what the macro spells out, whatever the other key does meanwhile
            let seq: Vec<String> = outs.iter().filter(|e| matches!(e.kind, OutKind::Press | OutKind::Release) && (e.key == "LCtrl" || e.key == "X")).map(|e| format!("{}{}", if e.kind == OutKind::Press { "↓" } else { "↑" }, e.key)).collect();
            let want = vec!["↓LCtrl", "↓X", "↑X", "↑LCtrl"];
            if seq != want {
                o.set_fail("C18:vkey-step-of-macro-lost", format!("the macro presses vk1 (LCtrl), types x and releases vk1: expected {want:?}, got {seq:?}: {}", outs_short(&outs)), vec![]);
            }
            // the second virtual key was operated exactly once
            let alt_p = outs.iter().filter(|e| e.kind == OutKind::Press && e.key == "LAlt").count();
            if alt_p != 1 && !o.failed() {
                o.set_fail("C18:vkey-operation-lost", format!("the other key operates vk2 (LAlt) once: {alt_p} presses of LAlt: {}", outs_short(&outs)), vec![]);
            }
            let d = st.down_set();
            if !d.is_empty() && !o.failed() {
                o.set_fail("C18:stuck-at-end", format!("still down: {:?}: {}", d.keys, outs_short(&outs)), vec![]);
            }
            if want_sample {
                o.sample = Some(sample_json(case, &outs, json!({"pop": "macro-collision"})));
            }
            return o;
        }
        let mut st = match Stepper::new_filtered(&case.cfg, &case.files, Mode::Ticking) {
            Ok(s) => s,
            Err(_) => return RunOut::skip("parser-rejected"),
        };
        let pop = case.param("pop").unwrap_or("state").to_string();
        let mut o = RunOut::pass();
        o.count(&format!("pop.{pop}"), 1);
        let mut sig = fnv(0, case.cfg.as_bytes());
        for op in &case.ops {
            sig = fnv(sig, op.short().as_bytes());
        }
        o.sig = sig;
        match pop.as_str() {
            "state" => {
                let payload_layer = case.param_u64("payload_layer").unwrap_or(0) == 1;
                // reference state: down / up
                let mut refdown = false;
                let mut changes = 0;
                let k = oscode_of("k");
                for (i, op) in case.ops.iter().enumerate() {
                    let mut apply_ref = |opn: &str, refdown: &mut bool| {
                        let before = *refdown;
                        match opn {
                            "press" => *refdown = true,
                            "release" => *refdown = false,
                            "tap" | "macro-tap" => *refdown = false,
                            "toggle" => *refdown = !*refdown,
                            _ => {}
                        }
                        if before != *refdown {
                            changes += 1;
                        }
                    };
                    match op {
                        Op::Press(c) => {
                            if let Some(t) = TRIG.iter().find(|t| oscode_of(t.0) == *c) {
                                if t.1 == "press" {
                                    apply_ref(t.2, &mut refdown);
                                }
                            }
                        }
                        Op::Release(c) => {
                            if let Some(t) = TRIG.iter().find(|t| oscode_of(t.0) == *c) {
                                if t.1 == "release" {
                                    apply_ref(t.2, &mut refdown);
                                }
                            }
                        }
                        Op::Vkey(_, a) => apply_ref(["press", "release", "tap", "toggle"][*a as usize & 3], &mut refdown),
                        _ => {}
                    }
                    // the layer payload is observed through key k
                    let n0 = st.trace.outs.len();
                    st.apply(i, op);
                    if payload_layer {
                        if let Op::Press(c) = op {
                            if *c == k {
                                st.gap(2);
                                let got = st.trace.outs[n0..].iter().find(|e| e.kind == OutKind::Press).map(|e| e.key.clone()).unwrap_or_default();
                                let want = if refdown { "Kb3" } else { "Kb2" };
                                if got != want {
                                    o.set_fail("C18:payload-does-not-follow-reference-state", format!("virtual key (layer payload) reference state {}: key k produced {got:?}, expected {want}: {}", if refdown { "down" } else { "up" }, outs_short(&st.trace.outs)), vec![]);
                                }
                            }
                        }
                    }
                    if !payload_layer {
                        if let Op::Gap(g) = op {
                            if *g >= 8 && i > 0 && case.ops[i - 1].is_input() {
                                let dn = st.down_set().keys.contains(&"Kb1".to_string());
                                if dn != refdown {
                                    o.set_fail(
                                        "C18:payload-does-not-follow-reference-state",
                                        format!("after op #{} ({}) the reference state of the virtual key is {} but its payload key is {} at the OS: {}", i - 1, case.ops[i - 1].short(), if refdown { "down" } else { "up" }, if dn { "down" } else { "up" }, outs_short(&st.trace.outs)),
                                        vec![],
                                    );
                                }
                            }
                        }
                    }
                }
                st.gap(40);
                o.nontrivial = changes > 0;
            }
            "hfd" => {
                st.run_ops(&case.ops);
                st.gap(40);
                let d1 = case.param_u64("d").unwrap_or(20);
                let d2 = case.param_u64("d2").unwrap_or(d1);
                let d = d1.max(d2);
                let (a, b) = (oscode_of("a"), oscode_of("b"));
                let mut tm = 0u64;
                let mut acts_d: Vec<(u64, u64)> = vec![];
                for op in &case.ops {
                    match op {
                        Op::Gap(n) => tm += *n as u64,
                        Op::Press(c) if *c == a => acts_d.push((tm + 1, d1)), // activation tick
                        Op::Press(c) if *c == b => acts_d.push((tm + 1, d2)),
                        _ => {}
                    }
                }
                let acts: Vec<u64> = acts_d.iter().map(|x| x.0).collect();
                // expected: groups of activations where each re-arm comes before the pending release
                let mut expected: Vec<(u64, u64)> = vec![]; // (down tick, up tick)
                for (at, dur) in &acts_d {
                    let d = *dur;
                    match expected.last_mut() {
                        Some((_, up_t)) if *at < *up_t => *up_t = *at + d,
                        Some((_, up_t)) if *at == *up_t || *at == *up_t + 1 => {
                            // re-arm in the very tick of the release (or the next): boundary, both accepted
                            o.count("boundary.rearm-at-release-tick", 1);
                            expected.push((u64::MAX, 0));
                        }
                        _ => expected.push((*at + 1, *at + d)),
                    }
                }
                let boundary = expected.iter().any(|e| e.0 == u64::MAX);
                let got_down: Vec<u64> = st.trace.outs.iter().filter(|e| e.kind == OutKind::Press && e.key == "Kb1").map(|e| e.t).collect();
                let got_up: Vec<u64> = st.trace.outs.iter().filter(|e| e.kind == OutKind::Release && e.key == "Kb1").map(|e| e.t).collect();
                o.nontrivial = !got_down.is_empty();
                if !boundary {
                    let want_down: Vec<u64> = expected.iter().map(|e| e.0).collect();
                    let want_up: Vec<u64> = expected.iter().map(|e| e.1).collect();
                    // with D small the release can precede the visible press: compare only ups exactly, downs by count
                    // virtual key events share the input queue (one event per tick): every physical
                    // event that is in flight around the activation / release delays them by one tick
                    let mut tm3 = 0u64;
                    let mut phys: Vec<u64> = vec![];
                    for op in &case.ops {
                        match op {
                            Op::Gap(n) => tm3 += *n as u64,
                            Op::Press(_) | Op::Release(_) => phys.push(tm3),
                            _ => {}
                        }
                    }
                    let ok_ups = got_up.len() == want_up.len()
                        && got_up.iter().zip(want_up.iter()).all(|(g, w)| {
                            let q = phys.iter().filter(|t| **t + d + 3 >= *w && **t <= *w + 1).count() as u64;
                            // the activating press itself is always among them
                            let q = q.saturating_sub(1);
                            if q == 0 {
                                g == w
                            } else {
                                *g >= *w && *g <= *w + q
                            }
                        });
                    if got_up.iter().zip(want_up.iter()).all(|(g, w)| g == w) {
                        o.count("hold-for-duration.exact-release-tick", 1);
                    }
                    if !ok_ups || got_down.len() != want_down.len() {
                        o.set_fail(
                            "C18:hold-for-duration-wrong",
                            format!("D={d}, activations at ticks {acts:?}: expected presses at {want_down:?} and releases exactly at {want_up:?}; got presses {got_down:?} releases {got_up:?}: {}", outs_short(&st.trace.outs)),
                            vec![],
                        );
                    }
                }
            }
            _ => {
                st.run_ops(&case.ops);
                st.gap(40);
                let t = case.param_u64("t").unwrap_or(30);
                let a = oscode_of("a");
                // walk: armed after each press of a; fires once when idle for T
                let mut tm = 0u64;
                let mut last_input = 0u64;
                let mut armed_since: Option<u64> = None;
                let taps: Vec<u64> = st.trace.outs.iter().filter(|e| e.kind == OutKind::Press && e.key == "Kb1").map(|e| e.t).collect();
                let mut used = vec![false; taps.len()];
                let mut arm_windows: Vec<(u64, u64)> = vec![]; // (armed at, next arming or end)
                for op in &case.ops {
                    match op {
                        Op::Gap(n) => tm += *n as u64,
                        Op::Press(c) => {
                            if *c == a {
                                if let Some(s) = armed_since.take() {
                                    arm_windows.push((s, tm));
                                }
                                armed_since = Some(tm);
                            }
                            last_input = tm;
                        }
                        Op::Release(_) => last_input = tm,
                        _ => {}
                    }
                }
                let _ = last_input;
                if let Some(s) = armed_since {
                    arm_windows.push((s, u64::MAX));
                }
                o.nontrivial = !taps.is_empty();
                // input arrival times for the "not before" clause
                let mut tm2 = 0u64;
                let mut inputs: Vec<u64> = vec![];
                for op in &case.ops {
                    match op {
                        Op::Gap(n) => tm2 += *n as u64,
                        Op::Press(_) | Op::Release(_) | Op::Repeat(_) => inputs.push(tm2),
                        _ => {}
                    }
                }
                for (ti, f) in taps.iter().enumerate() {
                    // not before the idle time has accumulated since the last input
                    // (the firing is decided at the end of tick f-1 and becomes visible in tick f; an
                    // input that arrives in tick f-1 is processed in tick f, after the decision)
                    let li = inputs.iter().filter(|x| **x + 2 <= *f).max().copied().unwrap_or(0);
                    if *f < li + t {
                        o.set_fail("C18:on-idle-fired-early", format!("T={t}: fired at tick {f}, last input arrived at {li}: {}", outs_short(&st.trace.outs)), vec![]);
                    }
                    // ... and not long after it has: nothing but key events postpones it
                    if *f > li + t + 15 && !o.failed() {
                        o.set_fail("C18:on-idle-fired-late", format!("T={t}: the last key event arrived at {li}, on-idle fired only at tick {f}: {}", outs_short(&st.trace.outs)), vec![]);
                    }
                    // belongs to exactly one arming window
                    let w = arm_windows.iter().position(|(s, e)| *f > *s && *f <= e.saturating_add(t + 8));
                    match w {
                        None => o.set_fail("C18:on-idle-fired-without-arming", format!("fired at {f} outside every arming window {arm_windows:?}: {}", outs_short(&st.trace.outs)), vec![]),
                        Some(_) => used[ti] = true,
                    }
                }
                // at most one firing per arming, and a firing if the history stayed idle long enough
                for (s, e) in &arm_windows {
                    let n = taps.iter().filter(|f| **f > *s && (**f <= *e || *e == u64::MAX)).count();
                    if n > 1 {
                        o.set_fail("C18:on-idle-fired-more-than-once", format!("armed at {s}: fired {n} times: {}", outs_short(&st.trace.outs)), vec![]);
                    }
                    if *e == u64::MAX && n == 0 {
                        o.set_fail("C18:on-idle-did-not-fire", format!("armed at {s}, then idle for more than T={t}: never fired: {}", outs_short(&st.trace.outs)), vec![]);
                    }
                }
            }
        }
        st.finish();
        o.sim_ms = st.trace.sim_ms;
        let d = st.down_set();
        if !d.is_empty() && !o.failed() {
            o.set_fail("C18:stuck-at-end", format!("still down: {:?}: {}", d.keys, outs_short(&st.trace.outs)), vec![]);
        }
        if want_sample {
            o.sample = Some(sample_json(case, &st.trace.outs, json!({"pop": pop})));
        }
        o
    }
    fn assumptions(&self) -> Vec<String> {
        vec![
            "hold-for-duration: activation tick = arrival + 1, release exactly at (latest activation tick) + D (DESIGN.md D5); a re-arm in the very tick of the release is counted but not judged".into(),
            "on-idle: lower bound only (not before T ms after the last input arrived), exactly one firing per arming".into(),
            "TCP ActOnFakeKey is driven through the same function the socket handler calls (executor A); the racing-client variant belongs to executor B".into(),
        ]
    }
}

/// Virtual-key operations from a TCP-client task racing with the real processing-loop thread
/// (executor B). The operations of one client are applied in order and atomically (under the kanata
/// lock), so whatever the interleaving with the loop and with typing: each virtual key's OS marker is
/// pressed once per up->down transition of the sequential model and released once per down->up
/// transition, the final state agrees with the model, no operation is lost when it lands while the
/// loop is about to block (lost wake-up), and nothing deadlocks.
fn check_tcp_race(case: &Case, want_sample: bool) -> RunOut {
    use crate::exec_b::*;
    let mode = case.param("b_mode").unwrap_or("jitter").to_string();
    let bseed = case.param_u64("b_seed").unwrap_or(1);
    let sim = match mode.as_str() {
        "jitter" => kanata_verif_rt::SimCfg { seed: bseed, cost_max_ns: 300_000, switch_permille: 300, sleep_overshoot_max_ns: 400_000, max_steps: 20_000_000, ..Default::default() },
        _ => kanata_verif_rt::SimCfg { seed: bseed, cost_max_ns: 300_000, switch_permille: 300, stall_permille: 25, stall_min_ns: 2_000_000, stall_max_ns: 40_000_000, sleep_overshoot_max_ns: 400_000, max_steps: 20_000_000, ..Default::default() },
    };
    let b = match run_b(&case.cfg, &case.files, &case.ops, &BOpts { sim, tcp_task: true, phase_us: 0 }) {
        Ok(b) => b,
        Err(e) => {
            let mut o = RunOut::pass();
            o.set_fail("C18:loop-panicked", e, vec![]);
            return o;
        }
    };
    let mut o = RunOut::pass();
    o.count("pop.tcp-race", 1);
    o.count(&format!("tcp-race.mode.{mode}"), 1);
    o.count("tcp-race.scheduling-points", b.report.steps);
    o.count("tcp-race.task-switches", b.report.switches);
    o.count("tcp-race.stalls-injected", b.report.stalls);
    o.sim_ms = b.end_ms.saturating_sub(1_000_000);
    o.sig = b.report.schedule_hash ^ trace_sig(&b.outs);
    if !b.report.panics.is_empty() || b.report.deadlock || b.report.leaked > 0 || b.report.overrun {
        o.set_fail("C18:loop-did-not-terminate", format!("panics {:?} deadlock={} leaked={} overrun={}", b.report.panics, b.report.deadlock, b.report.leaked, b.report.overrun), vec![]);
        return o;
    }
    for (vk, marker) in [("vk1", "Kb1"), ("vk2", "Kb2")] {
        let (mut dn, mut want_press, mut want_rel) = (false, 0usize, 0usize);
        for op in &case.ops {
            if let Op::Vkey(n, act) = op {
                if n != vk {
                    continue;
                }
                match act & 3 {
                    0 => {
                        if !dn {
                            want_press += 1;
                        }
                        dn = true;
                    }
                    1 => {
                        if dn {
                            want_rel += 1;
                        }
                        dn = false;
                    }
                    2 => {
                        // tap: press + release (a tap of a key that is down releases it)
                        if !dn {
                            want_press += 1;
                        }
                        want_rel += 1;
                        dn = false;
                    }
                    _ => {
                        if dn {
                            want_rel += 1;
                        } else {
                            want_press += 1;
                        }
                        dn = !dn;
                    }
                }
            }
        }
        // transitions as the OS sees them (a press of a key that is down / a release of a key that
        // is up changes nothing)
        let (mut got_press, mut got_rel, mut os_down) = (0usize, 0usize, false);
        for e in b.outs.iter().filter(|e| e.key == marker) {
            match e.kind {
                OutKind::Press if !os_down => {
                    got_press += 1;
                    os_down = true;
                }
                OutKind::Release if os_down => {
                    got_rel += 1;
                    os_down = false;
                }
                _ => {}
            }
        }
        let down_end = b.down_at_end.iter().any(|k| k == marker);
        o.nontrivial |= got_press > 0;
        // the OS output is a per-tick difference: operations that land within one tick can cancel
        // out (press+release between two ticks is invisible), so the counts are upper bounds and the
        // final state is exact
        if down_end != dn {
            o.set_fail("C18:virtual-key-final-state-wrong", format!("{vk}: the operations leave it {} but the OS has {marker} {}: ops {} :: {}", if dn { "down" } else { "up" }, if down_end { "down" } else { "up" }, ops_short(&case.ops), outs_short(&b.outs)), vec![]);
            return o;
        }
        if got_press > want_press || got_rel > want_rel || got_press != got_rel + (down_end as usize) {
            o.set_fail("C18:virtual-key-transitions-wrong", format!("{vk}: model {want_press} presses / {want_rel} releases, OS {got_press} / {got_rel}: ops {} :: {}", ops_short(&case.ops), outs_short(&b.outs)), vec![]);
            return o;
        }
    }
    if want_sample {
        o.sample = Some(sample_json(case, &b.outs, json!({"mode": mode, "steps": b.report.steps, "switches": b.report.switches, "stalls": b.report.stalls})));
    }
    o
}
