//! C19 — dynamic macros replay what was typed and never leave a key down.

use super::common::*;
use super::*;
use crate::exec_a::*;
use crate::gen::*;
use crate::ops::*;
use crate::trace::*;
use serde_json::json;

pub struct C19;

const TYPED: &[&str] = &["a", "b", "c", "d"];

fn up(s: &str) -> String {
    code_name(oscode_of(s))
}

/// 'timed' population: time-sensitive mappings (tap-hold variants) with the 'recorded' delay
/// behaviour. Every hold duration is at least 30 ms away from the tap-hold threshold, so the
/// outcome of typing is unambiguous, and the replay (which reproduces the typed gaps) must give the
/// same output as typing the recorded events again with the same gaps. The record key may still be
/// held when the first recorded key is pressed, after a pause.
fn gen_timed(seed: u64, r: &mut Rng) -> Case {
    let h = *r.pick(&[100u64, 150]);
    let v1 = *r.pick(&["tap-hold", "tap-hold-release", "tap-hold-press"]);
    let v2 = *r.pick(&["tap-hold", "tap-hold-release", "tap-hold-press"]);
    let mut case = Case { prop: "C19".into(), seed, ..Default::default() };
    case.cfg = format!(
        "(defcfg dynamic-macro-replay-delay-behaviour recorded)\n(defsrc a b c d r q s t p o)\n(deflayer l0 ({v1} 0 {h} a 1) b ({v2} 0 {h} c 2) d (dynamic-macro-record 1) (dynamic-macro-record 2) dynamic-macro-record-stop (dynamic-macro-record-stop-truncate 0) (dynamic-macro-play 1) (dynamic-macro-play 2))\n"
    );
    let code = |n: &str| oscode_of(n);
    let mut ops: Vec<Op> = vec![Op::Press(code("r"))];
    // pause between starting the recording and the first typed key
    ops.push(Op::Gap(*r.pick(&[5u32, 20, 80, 150, 300])));
    let r_release_after_first = r.chance(500);
    if !r_release_after_first {
        ops.push(Op::Release(code("r")));
        ops.push(Op::Gap(r.range(8, 200) as u32));
    }
    let n = r.range(1, 5);
    let mut r_up = !r_release_after_first;
    for _ in 0..n {
        let k = code(*r.pick(&["a", "a", "c", "b"]));
        let dur = if r.chance(500) { r.range(8, h - 30) } else { r.range(h + 30, h + 90) };
        ops.push(Op::Press(k));
        if !r_up {
            // the record key comes up while the first recorded key is down
            let at = r.range(2, dur.min(40) - 2);
            ops.push(Op::Gap(at as u32));
            ops.push(Op::Release(code("r")));
            ops.push(Op::Gap((dur - at) as u32));
            r_up = true;
        } else if k != code("b") && r.chance(250) && dur > 12 {
            // another key tapped while this one is down
            let at = r.range(2, dur - 8);
            ops.push(Op::Gap(at as u32));
            ops.push(Op::Press(code("d")));
            ops.push(Op::Gap(3));
            ops.push(Op::Release(code("d")));
            ops.push(Op::Gap((dur - at - 3) as u32));
        } else {
            ops.push(Op::Gap(dur as u32));
        }
        ops.push(Op::Release(k));
        ops.push(Op::Gap(r.range(10, 60) as u32));
    }
    ops.push(Op::Press(code("s")));
    ops.push(Op::Gap(4));
    ops.push(Op::Release(code("s")));
    ops.push(Op::Gap(400));
    case.set("replay_op_idx", ops.len());
    ops.push(Op::Press(code("p")));
    ops.push(Op::Gap(4));
    ops.push(Op::Release(code("p")));
    ops.push(Op::Gap(3000));
    case.ops = ops;
    case.set("pop", "timed");
    case.set("behaviour", "recorded");
    case.set("stop", "s");
    case.set("trunc", 0);
    case.set("maxp", 128);
    case.set("min_cfg", 0);
    case.set("min_ops", 0);
    case.set("min_gaps", 0);
    case
}

/// The C19 generator; `force_pop` pins the population (used by C01 for its dynamic-macro
/// histories).
pub fn gen_c19(seed: u64, force_pop: Option<&'static str>) -> Case {
    let mut r = Rng::new(seed);
    let pop0 = *r.pick(&["identity", "identity", "remap", "selfplay", "limit"]);
    let pop = force_pop.unwrap_or(pop0);

    let behaviour = *r.pick(&["constant", "recorded"]);
    let maxp = if pop == "limit" { r.range(1, 3) } else { 128 };
    let trunc = r.range(0, 4);
    let layer = if pop == "remap" {
        // time-insensitive remapping incl. a held layer; sometimes a macro that any other key
        // press cancels (it has to be cancelled by a replayed press just like by a typed one)
        *r.pick(&["x C-y (layer-while-held l1) (multi z w)", "x C-y (layer-while-held l1) (multi z w)", "(macro-cancel-on-press z 400 y) C-y (layer-while-held l1) w"])
    } else {
        "a b c d"
    };
    if r.chance(160) && force_pop.is_none() {
        return gen_timed(seed, &mut r);
    }
    let mut case = Case { prop: "C19".into(), seed, ..Default::default() };
    case.cfg = format!(
        "(defcfg dynamic-macro-max-presses {maxp} dynamic-macro-replay-delay-behaviour {behaviour})\n(defsrc a b c d r q s t p o)\n(deflayer l0 {layer} (dynamic-macro-record 1) (dynamic-macro-record 2) dynamic-macro-record-stop (dynamic-macro-record-stop-truncate {trunc}) (dynamic-macro-play 1) (dynamic-macro-play 2))\n(deflayer l1 1 2 _ 3 _ _ _ _ _ _)\n"
    );
    let code = |n: &str| oscode_of(n);
    let tap = |ops: &mut Vec<Op>, k: u16, r: &mut Rng| {
        ops.push(Op::Press(k));
        ops.push(Op::Gap(r.range(3, 6) as u32));
        ops.push(Op::Release(k));
        ops.push(Op::Gap(r.range(8, 14) as u32));
    };
    let mut ops: Vec<Op> = vec![];
    let mut down: Vec<u16> = vec![];
    let typed: Vec<u16> = TYPED.iter().map(|k| code(k)).collect();
    // optionally a key is already held when recording starts
    if r.chance(300) {
        let k = *r.pick(&typed);
        down.push(k);
        ops.push(Op::Press(k));
        ops.push(Op::Gap(10));
    }
    let type_some = |ops: &mut Vec<Op>, down: &mut Vec<u16>, r: &mut Rng, n: u64| {
        for _ in 0..n {
            let can: Vec<u16> = typed.iter().copied().filter(|k| !down.contains(k)).collect();
            if !can.is_empty() && (down.is_empty() || r.chance(550)) {
                let k = *r.pick(&can);
                down.push(k);
                ops.push(Op::Press(k));
            } else {
                let i = r.below(down.len() as u64) as usize;
                ops.push(Op::Release(down.remove(i)));
            }
            ops.push(Op::Gap(*r.pick(&[3u32, 4, 7, 12, 30])));
        }
    };
    // optionally macro 1 already has an earlier, complete recording: the new one replaces it, also
    // when the new one ends up empty (stopped at once, or truncated by more than it holds)
    if pop == "identity" && r.chance(250) {
        tap(&mut ops, code("r"), &mut r);
        let n0 = r.range(2, 4);
        type_some(&mut ops, &mut down, &mut r, n0);
        for k in down.drain(..) {
            ops.push(Op::Release(k));
            ops.push(Op::Gap(4));
        }
        tap(&mut ops, code("s"), &mut r);
        ops.push(Op::Gap(30));
    }
    // optionally record macro 2 first (for nested play)
    let nested = pop == "identity" && r.chance(300);
    if nested {
        tap(&mut ops, code("q"), &mut r);
        type_some(&mut ops, &mut down, &mut r, 3);
        if r.chance(400) {
            // macro 2's own play key (or macro 1's) tapped while macro 2 is being recorded:
            // nothing to play yet, but the tap is part of the recording, so a later nested
            // replay of macro 2 meets its own play key and must refuse it
            let k = if r.chance(700) { "o" } else { "p" };
            tap(&mut ops, code(k), &mut r);
            type_some(&mut ops, &mut down, &mut r, 2);
        }
        // release everything before stopping so that macro 2 is self-contained
        for k in down.drain(..) {
            ops.push(Op::Release(k));
            ops.push(Op::Gap(4));
        }
        tap(&mut ops, code("s"), &mut r);
    }
    tap(&mut ops, code("r"), &mut r);
    let n = if pop == "limit" { r.range(6, 14) } else { r.range(0, 9) };
    type_some(&mut ops, &mut down, &mut r, n);
    if nested && r.chance(700) {
        tap(&mut ops, code("o"), &mut r); // play macro 2 while recording macro 1
        ops.push(Op::Gap(120));
    }
    if pop == "selfplay" {
        tap(&mut ops, code("p"), &mut r); // play macro 1 while recording macro 1
        type_some(&mut ops, &mut down, &mut r, 2);
    }
    // stop
    let stop = if pop == "limit" { "s" } else { *r.pick(&["s", "s", "t", "r", "q"]) };
    case.set("stop", stop);
    case.set("trunc", trunc);
    tap(&mut ops, code(stop), &mut r);
    if stop == "q" {
        // recording of macro 2 started: stop it
        tap(&mut ops, code("s"), &mut r);
    }
    for k in down.drain(..) {
        ops.push(Op::Release(k));
        ops.push(Op::Gap(4));
    }
    ops.push(Op::Gap(60));
    case.set("replay_op_idx", ops.len());
    tap(&mut ops, code("p"), &mut r);
    ops.push(Op::Gap(1500));
    case.ops = ops;
    case.set("pop", pop);
    if layer.contains("macro-cancel-on-press") {
        // (with a 2-tick macro step in play the typed gaps of >= 3 ms matter: keep them)
        case.set("min_gaps", 0);
    }
    case.set("behaviour", behaviour);
    case.set("maxp", maxp);
    case.set("min_cfg", 0);
    case.set("min_ops", 0);
    case
}

impl Prop for C19 {
    fn id(&self) -> &'static str {
        "C19"
    }
    fn rule_text(&self) -> String {
        "case = record (macro 1 / 2), typed history (keys held across the start and stop boundaries), stop / stop-truncate n / re-record / record-other, play, nested play of the other macro, play-while-recording (self reference), exceeding dynamic-macro-max-presses; both replay-delay behaviours; populations: 'timed' (tap-hold variants under the 'recorded' delay behaviour, hold durations >= 30 ms away from the threshold, the record key possibly still held when the first recorded key goes down after a pause: replay output = output of typing the recorded events again with the same gaps), 'identity' (every key mapped to itself: what is fed during replay = the typed list minus stop key and truncated tail, then releases of the keys still down at stop), 'remap' (differential: the replay's output key sequence equals the output of a fresh instance into which the same events are typed), 'selfplay', 'limit'. 2 of 8 cases record and replay with a late loop (2 / 5 ms per iteration). non-trivial = the replay produced output; distinct = config x history hash.".into()
    }
    fn runs(&self, tier: Tier) -> u64 {
        match tier {
            Tier::Quick => 250_000,
            Tier::Thorough => 10_000_000,
        }
    }
    fn gen(&self, seed: u64, _tier: Tier) -> Case {
        gen_c19(seed, None)
    }

    fn check(&self, case: &Case, want_sample: bool) -> RunOut {
        if !history_consistent(&case.ops) {
            return RunOut::skip("history-not-consistent");
        }
        let mut st = match Stepper::new_filtered(&case.cfg, &case.files, Mode::Ticking) {
            Ok(s) => s,
            Err(_) => return RunOut::skip("parser-rejected"),
        };
        // schedule dimension "late loop": the recording / replaying instance sometimes covers
        // 2 or 5 ms per loop iteration (the fresh instance that types the keys again does not)
        st.batch = case.param_u64("batch").unwrap_or([1u64, 1, 1, 1, 1, 1, 2, 5][(case.seed % 8) as usize]);
        let pop = case.param("pop").unwrap_or("identity").to_string();
        let ridx = case.param_u64("replay_op_idx").unwrap_or(0) as usize;
        let mut o = RunOut::pass();
        if st.batch > 1 {
            o.count(&format!("schedule.late-loop-{}ms-per-iteration", st.batch), 1);
        }
        o.count(&format!("pop.{pop}"), 1);
        o.count(&format!("behaviour.{}", case.param("behaviour").unwrap_or("?")), 1);
        let mut sig = fnv(0, case.cfg.as_bytes());
        for op in &case.ops {
            sig = fnv(sig, op.short().as_bytes());
        }
        o.sig = sig;
        // run the typing part, then the replay part separately
        for (i, op) in case.ops[..ridx.min(case.ops.len())].iter().enumerate() {
            st.apply(i, op);
        }
        let n_before = st.trace.outs.len();
        let typing_outs: Vec<OutEv> = st.trace.outs.clone();
        for (i, op) in case.ops[ridx.min(case.ops.len())..].iter().enumerate() {
            st.apply(ridx + i, op);
        }
        st.gap(300);
        st.finish();
        o.sim_ms = st.trace.sim_ms;
        probes_into(&mut o, &st.probes, &st.trace);
        let replay_outs: Vec<OutEv> = st.trace.outs[n_before..].to_vec();
        o.nontrivial = !replay_outs.is_empty();
        // (iii) nothing down after the replay, and it terminated
        let d = st.down_set();
        if !d.is_empty() {
            o.set_fail("C19:key-left-down-after-replay", format!("still down: {:?}: replay output: {}", d.keys, outs_short(&replay_outs)), vec![]);
        }
        if st.k.dynamic_macro_replay_state.is_some() {
            o.set_fail("C19:replay-did-not-terminate", format!("replay still active 1.8 s after play: {}", outs_short(&replay_outs)), vec![]);
        }
        // reconstruct what should have been recorded, from the ops
        let code = |n: &str| oscode_of(n);
        let typed_codes: Vec<u16> = TYPED.iter().map(|k| code(k)).collect();
        let stop = case.param("stop").unwrap_or("s").to_string();
        let trunc = case.param_u64("trunc").unwrap_or(0) as usize;
        let maxp = case.param_u64("maxp").unwrap_or(128) as usize;
        // walk ops up to the replay: find the LAST recording of macro 1
        #[derive(Clone, Debug, PartialEq)]
        enum Item {
            P(u16),
            R(u16),
        }
        let mut recording: Option<(u8, Vec<Item>)> = None;
        let mut saved1: Option<Vec<Item>> = None;
        let mut saved2: Option<Vec<Item>> = None;
        let mut limit_hit = false;
        let finish = |items: &mut Vec<Item>| {
            // releases for unreleased presses (any order)
            let mut downk: Vec<u16> = vec![];
            for it in items.iter() {
                match it {
                    Item::P(k) => {
                        if !downk.contains(k) {
                            downk.push(*k)
                        }
                    }
                    Item::R(k) => downk.retain(|x| x != k),
                }
            }
            for k in downk {
                items.push(Item::R(k));
            }
        };
        for op in case.ops[..ridx.min(case.ops.len())].iter() {
            match op {
                Op::Press(c) => {
                    let name = ["a", "b", "c", "d", "r", "q", "s", "t", "p", "o"].iter().find(|n| code(n) == *c).copied().unwrap_or("?");
                    // every press that arrives while recording is recorded (incl. control keys)
                    if let Some((_, items)) = recording.as_mut() {
                        // the size check looks at the stored items, which lag one event behind
                        // (the most recent event is still pending and is dropped when the limit hits)
                        if !items.is_empty() && items.len() - 1 > maxp * 2 {
                            // recording stops by itself at the size limit
                            limit_hit = true;
                            let (id, mut items) = recording.take().unwrap();
                            items.pop();
                            finish(&mut items);
                            if id == 1 {
                                saved1 = Some(items)
                            } else {
                                saved2 = Some(items)
                            }
                        } else {
                            items.push(Item::P(*c));
                        }
                    }
                    match name {
                        "r" | "q" => {
                            let id = if name == "r" { 1 } else { 2 };
                            match recording.take() {
                                None => recording = Some((id, vec![])),
                                Some((old, mut items)) => {
                                    items.pop(); // the record key press itself
                                    finish(&mut items);
                                    if old == 1 {
                                        saved1 = Some(items)
                                    } else {
                                        saved2 = Some(items)
                                    }
                                    if old != id {
                                        recording = Some((id, vec![]));
                                    }
                                }
                            }
                        }
                        "s" | "t" => {
                            if let Some((old, mut items)) = recording.take() {
                                items.pop(); // the stop key press itself
                                if name == "t" {
                                    let keep = items.len().saturating_sub(trunc);
                                    items.truncate(keep);
                                }
                                finish(&mut items);
                                if old == 1 {
                                    saved1 = Some(items)
                                } else {
                                    saved2 = Some(items)
                                }
                            }
                        }
                        _ => {}
                    }
                }
                Op::Release(c) => {
                    if let Some((_, items)) = recording.as_mut() {
                        items.push(Item::R(*c));
                    }
                }
                _ => {}
            }
        }
        let _ = stop;
        if limit_hit {
            o.count("probe.recording-stopped-at-size-limit", 1);
        }
        // expand macro 1 (nested play of macro 2: the press of `o` inside macro 1 replays macro 2 once)
        let m1 = saved1.clone().unwrap_or_default();
        let m2 = saved2.clone().unwrap_or_default();
        let mut fed: Vec<Item> = vec![];
        for it in &m1 {
            fed.push(it.clone());
            if *it == Item::P(code("o")) {
                // nested play: macro 2's items are fed right after
                for it2 in &m2 {
                    fed.push(it2.clone());
                }
            }
            // a press of `p` (play 1) inside macro 1 is refused (no recursion)
        }
        if pop == "identity" || pop == "selfplay" || pop == "limit" {
            // what is fed, projected on the typed keys, is what comes out (identity mapping)
            let want: Vec<(bool, String)> = fed
                .iter()
                .filter_map(|it| match it {
                    Item::P(k) if typed_codes.contains(k) => Some((true, code_name(*k))),
                    Item::R(k) if typed_codes.contains(k) => Some((false, code_name(*k))),
                    _ => None,
                })
                .collect();
            // the OS only sees effective changes: a release of a key that is not down is invisible,
            // a press of a key already down is invisible
            let mut eff: Vec<(bool, String)> = vec![];
            let mut dn: Vec<String> = vec![];
            for (p, k) in &want {
                if *p && !dn.contains(k) {
                    dn.push(k.clone());
                    eff.push((true, k.clone()));
                } else if !*p && dn.contains(k) {
                    dn.retain(|x| x != k);
                    eff.push((false, k.clone()));
                }
            }
            let got_raw: Vec<(bool, String)> = replay_outs.iter().filter(|e| matches!(e.kind, OutKind::Press | OutKind::Release)).map(|e| (e.kind == OutKind::Press, e.key.clone())).collect();
            // same normalisation for the observed stream (a duplicate release event is invisible)
            let mut got: Vec<(bool, String)> = vec![];
            let mut dn2: Vec<String> = vec![];
            for (p, k) in &got_raw {
                if *p && !dn2.contains(k) {
                    dn2.push(k.clone());
                    got.push((true, k.clone()));
                } else if !*p && dn2.contains(k) {
                    dn2.retain(|x| x != k);
                    got.push((false, k.clone()));
                }
            }
            // the trailing releases may come in any order: compare as (ordered prefix, multiset tail)
            let n_tail = {
                // number of trailing auto-releases = keys down at stop
                let mut c = 0;
                for it in m1.iter().rev() {
                    if let Item::R(_) = it {
                        c += 1
                    } else {
                        break;
                    }
                }
                c.min(eff.len())
            };
            let (we, wt) = eff.split_at(eff.len().saturating_sub(n_tail));
            let ok = got.len() == eff.len() && got[..we.len()] == *we && {
                let mut a: Vec<&(bool, String)> = got[we.len()..].iter().collect();
                let mut b: Vec<&(bool, String)> = wt.iter().collect();
                a.sort();
                b.sort();
                a == b
            };
            if !ok && !o.failed() {
                let f = |v: &[(bool, String)]| v.iter().map(|(p, k)| format!("{}{k}", if *p { "↓" } else { "↑" })).collect::<Vec<_>>().join(" ");
                o.set_fail(
                    "C19:replay-differs-from-what-was-typed",
                    format!("expected the replay to feed [{}] (last {n_tail} in any order), got [{}]; typing phase output: {}", f(&eff), f(&got), outs_short(&typing_outs)),
                    vec![],
                );
            }
        }
        if pop == "timed" && !o.failed() {
            // what was typed between the record key press and the stop key press, with its gaps
            let (rk, sk) = (code("r"), code("s"));
            let start = case.ops.iter().position(|op| *op == Op::Press(rk)).map(|i| i + 1).unwrap_or(0);
            let end = case.ops.iter().position(|op| *op == Op::Press(sk)).unwrap_or(start);
            let mut ops2: Vec<Op> = vec![];
            let mut started = false;
            for op in &case.ops[start..end.max(start)] {
                match op {
                    Op::Press(k) | Op::Release(k) if typed_codes.contains(k) => {
                        started = true;
                        ops2.push(op.clone());
                    }
                    Op::Gap(_) if started => ops2.push(op.clone()),
                    _ => {}
                }
            }
            ops2.push(Op::Gap(1000));
            drop(st);
            let mut st2 = match Stepper::new_filtered(&case.cfg, &case.files, Mode::Ticking) {
                Ok(s) => s,
                Err(_) => return RunOut::skip("parser-rejected"),
            };
            st2.run_ops(&ops2);
            let proj = |v: &[OutEv]| v.iter().filter(|e| matches!(e.kind, OutKind::Press | OutKind::Release)).map(|e| (e.kind == OutKind::Press, e.key.clone())).collect::<Vec<_>>();
            let want = proj(&st2.trace.outs);
            let got = proj(&replay_outs);
            if want != got {
                let f = |v: &[(bool, String)]| v.iter().map(|(p, k)| format!("{}{k}", if *p { "↓" } else { "↑" })).collect::<Vec<_>>().join(" ");
                o.set_fail(
                    "C19:timed-replay-differs-from-typing-it-again",
                    format!("recorded delays: replay gives [{}], typing the recorded events again with the same gaps gives [{}] (events: {})", f(&got), f(&want), ops_short(&ops2)),
                    vec![],
                );
            }
            if want_sample {
                o.sample = Some(json!({"seed": format!("{:#x}", case.seed), "cfg": case.cfg, "ops": ops_short(&case.ops), "pop": pop}));
            }
            return o;
        }
        if pop == "remap" && !o.failed() {
            // differential: type the recorded events into a fresh instance
            drop(st);
            let mut st2 = match Stepper::new_filtered(&case.cfg, &case.files, Mode::Ticking) {
                Ok(s) => s,
                Err(_) => return RunOut::skip("parser-rejected"),
            };
            let mut ops2: Vec<Op> = vec![];
            for it in &fed {
                match it {
                    Item::P(k) if typed_codes.contains(k) => ops2.push(Op::Press(*k)),
                    Item::R(k) if typed_codes.contains(k) => ops2.push(Op::Release(*k)),
                    _ => continue,
                }
                ops2.push(Op::Gap(5));
            }
            ops2.push(Op::Gap(700));
            st2.run_ops(&ops2);
            let want: Vec<(bool, String)> = st2.trace.outs.iter().filter(|e| matches!(e.kind, OutKind::Press | OutKind::Release)).map(|e| (e.kind == OutKind::Press, e.key.clone())).collect();
            let got: Vec<(bool, String)> = replay_outs.iter().filter(|e| matches!(e.kind, OutKind::Press | OutKind::Release)).map(|e| (e.kind == OutKind::Press, e.key.clone())).collect();
            // trailing auto-releases may be in any order: compare key multiset per kind + the ordered prefix of presses
            let presses = |v: &Vec<(bool, String)>| v.iter().filter(|x| x.0).map(|x| x.1.clone()).collect::<Vec<_>>();
            let mut a = got.clone();
            let mut b = want.clone();
            a.sort();
            b.sort();
            if presses(&got) != presses(&want) || a != b {
                let f = |v: &[(bool, String)]| v.iter().map(|(p, k)| format!("{}{k}", if *p { "↓" } else { "↑" })).collect::<Vec<_>>().join(" ");
                o.set_fail("C19:replay-output-differs-from-typing-it-again", format!("replay: [{}] typing the same events into a fresh instance: [{}]", f(&got), f(&want)), vec![]);
            }
        }
        if want_sample {
            o.sample = Some(json!({"seed": format!("{:#x}", case.seed), "cfg": case.cfg, "ops": ops_short(&case.ops), "replay_out": outs_short(&replay_outs), "pop": pop}));
        }
        o
    }
    fn assumptions(&self) -> Vec<String> {
        vec![
            "control keys (record/stop/play) are tapped with >= 3 ms hold and >= 8 ms before the next event, so that the recording window boundaries are unambiguous".into(),
            "the events fed during replay are observable only through the OS output; on the identity configuration the output is the fed stream (a release of a key that is not down and a press of a key that is down are invisible)".into(),
            "with the 'recorded' delay behaviour kanata fast-forwards the recorded delays inside one tick_ms call; sequences are compared, not wall-clock times".into(),
        ]
    }
}
