//! C20 — zippychord leaves exactly the expansion on screen.
//!
//! The OS output of the real Kanata is replayed into a text buffer (what a receiving application
//! would show) and compared with a text-level reference model written from the documentation:
//! the model knows nothing about erase counters; an activation simply *replaces* what the gesture
//! (or the follow-up chain) has put on screen so far by the expansion.

use super::common::*;
use super::*;
use crate::exec_a::*;
use crate::gen::*;
use crate::ops::*;
use crate::trace::*;
use serde_json::json;
use std::collections::BTreeSet;

pub struct C20;

/// one visible character: (OS key name, shift, altgr)
type Ch = (String, bool, bool);

fn kname_of_char(c: char) -> String {
    match c {
        ' ' => "spc".into(),
        c => c.to_lowercase().to_string(),
    }
}
fn key_of_char(c: char) -> String {
    code_name(oscode_of(&kname_of_char(c)))
}
fn show(t: &[Ch]) -> String {
    t.iter()
        .map(|(k, s, a)| {
            let base = match k.as_str() {
                "Space" => "_".to_string(),
                "Dot" => ".".to_string(),
                "Comma" => ",".to_string(),
                "SColon" => ";".to_string(),
                k if k.starts_with("Kb") => k[2..].to_string(),
                k => k.to_lowercase(),
            };
            format!("{}{}{}", if *a { "@" } else { "" }, if *s { "^" } else { "" }, base)
        })
        .collect::<Vec<_>>()
        .join("")
}

#[derive(Default, Debug, Clone)]
struct Node {
    /// None = node exists only as a step towards a follow-up ("r df": r types itself)
    out: Option<Vec<Ch>>,
    children: Vec<(BTreeSet<String>, Node)>,
}
enum Look<'a> {
    Exact(&'a Node),
    Subset,
    Neither,
}
impl Node {
    fn look(&self, s: &BTreeSet<String>) -> Look<'_> {
        for (k, n) in &self.children {
            if k == s {
                return Look::Exact(n);
            }
        }
        for (k, _) in &self.children {
            if s.is_subset(k) {
                return Look::Subset;
            }
        }
        Look::Neither
    }
    fn child_mut(&mut self, s: &BTreeSet<String>) -> &mut Node {
        if let Some(i) = self.children.iter().position(|(k, _)| k == s) {
            return &mut self.children[i].1;
        }
        self.children.push((s.clone(), Node::default()));
        &mut self.children.last_mut().unwrap().1
    }
    fn at(&self, path: &[BTreeSet<String>]) -> Option<&Node> {
        let mut n = self;
        for p in path {
            n = &n.children.iter().find(|(k, _)| k == p)?.1;
        }
        Some(n)
    }
}

struct Dict {
    root: Node,
    /// (chain of chords, output) in file order
    lines: Vec<(Vec<BTreeSet<String>>, Vec<Ch>)>,
}

/// Reference reading of the dictionary file format (docs/config.adoc, "Zippychord").
fn parse_dict(file: &str, mappings: &[(char, Ch)]) -> Option<Dict> {
    let mut root = Node::default();
    let mut lines = vec![];
    for line in file.lines() {
        if line.trim().is_empty() || line.trim().starts_with("//") {
            continue;
        }
        let (input, output) = line.split_once('\t')?;
        let mut out = vec![];
        for c in output.chars() {
            if let Some((_, ch)) = mappings.iter().find(|(m, _)| *m == c) {
                out.push(ch.clone());
            } else {
                out.push((key_of_char(c), c.is_uppercase(), false));
            }
        }
        let mut chain = vec![];
        let mut rest = input;
        while !rest.is_empty() {
            let mut set = BTreeSet::new();
            if let Some(r) = rest.strip_prefix(' ') {
                set.insert("Space".to_string());
                rest = r;
            }
            let (chord, r) = rest.split_once(' ').unwrap_or((rest, ""));
            rest = r;
            for c in chord.chars() {
                set.insert(key_of_char(c));
            }
            chain.push(set);
        }
        let mut n = &mut root;
        for c in &chain {
            n = n.child_mut(c);
        }
        n.out = Some(out.clone());
        lines.push((chain, out));
    }
    Some(Dict { root, lines })
}

fn cfg_opt(cfg: &str, name: &str) -> Option<String> {
    let i = cfg.find(name)?;
    cfg[i + name.len()..].split_whitespace().next().map(|s| s.trim_end_matches(')').to_string())
}

/// What the receiving application shows.
#[derive(Default)]
struct TextBuf {
    /// the dead key (Quote, only ever typed for the single-output mapping) was pressed: it shows
    /// nothing by itself and merges with the next character into one displayed character
    dead: bool,
    text: Vec<Ch>,
    down: BTreeSet<String>,
    underflow: u32,
    dup_press: Vec<String>,
}
impl TextBuf {
    fn shift(&self) -> bool {
        self.down.contains("LShift") || self.down.contains("RShift")
    }
    fn apply(&mut self, e: &OutEv) {
        match e.kind {
            OutKind::Press => {
                let k = e.key.clone();
                let is_mod = matches!(k.as_str(), "LShift" | "RShift" | "RAlt" | "LAlt" | "LCtrl" | "RCtrl" | "LGui" | "RGui");
                if self.down.contains(&k) {
                    if !is_mod {
                        self.dup_press.push(k);
                    }
                    return;
                }
                if is_mod {
                    self.down.insert(k);
                    return;
                }
                if self.down.contains("LCtrl") {
                    // a shortcut, not text (Ctrl+Backspace would delete a whole word)
                    self.text.push((format!("Ctrl+{k}"), self.shift() && k != "Space", self.down.contains("RAlt")));
                } else if k == "BSpace" {
                    self.dead = false;
                    if self.text.pop().is_none() {
                        self.underflow += 1;
                    }
                } else if k == "Quote" && !self.dead {
                    self.dead = true;
                } else if self.dead {
                    self.dead = false;
                    self.text.push((format!("Quote+{k}"), self.shift() && k != "Space", self.down.contains("RAlt")));
                } else {
                    // shift + space is still a space
                    let ch = (k.clone(), self.shift() && k != "Space", self.down.contains("RAlt"));
                    self.text.push(ch);
                }
                self.down.insert(k);
            }
            OutKind::Release => {
                self.down.remove(&e.key);
            }
            _ => {}
        }
    }
}

/// Outcome of the reference model.
struct Model {
    text: Vec<Ch>,
    /// positions (in text) that may carry an extra shift because the user held shift while the
    /// expansion was typed (documented: the first typed character is capitalised)
    lenient_from: Vec<(usize, usize)>,
    ambiguous: Option<&'static str>,
    activations: u64,
    followup_activations: u64,
    superseded: u64,
    smart_spaces: u64,
    smart_space_erased: u64,
    passthrough_presses: u64,
    late_gestures: u64,
    not_reenabled: u64,
    shifted_activations: u64,
    altgr_activations: u64,
    multi_key_followups: u64,
    /// an expansion contains a key the user is physically holding although zippy no longer tracks
    /// it (pressed while zippy was disabled, or forgotten by a reset)
    output_key_held_outside_view: bool,
}

const PUNCT: &[&str] = &["Dot", "Comma", "SColon"];

fn run_model(dict: &Dict, ops: &[Op], d: u64, idle: u64, smart: &str) -> Model {
    let mut m = Model {
        text: vec![],
        lenient_from: vec![],
        ambiguous: None,
        activations: 0,
        followup_activations: 0,
        superseded: 0,
        smart_spaces: 0,
        smart_space_erased: 0,
        passthrough_presses: 0,
        late_gestures: 0,
        not_reenabled: 0,
        shifted_activations: 0,
        altgr_activations: 0,
        multi_key_followups: 0,
        output_key_held_outside_view: false,
    };
    let mut now = 0u64;
    // zippy availability
    let mut enabled = true;
    let mut reenable_ref: Option<u64> = None; // time of the event the idle time counts from
    let mut last_event = 0u64;
    // follow-up chain: path into the dictionary + text length before the chain's output
    let mut chain: Option<(Vec<BTreeSet<String>>, usize)> = None;
    // "releasing all keys, and pressing the keys in the follow chord": a chain is usable only
    // once the hold that produced it has ended
    let mut chain_armed = false;
    // current gesture
    let mut held: BTreeSet<String> = BTreeSet::new(); // physically down, zippy-relevant
    let mut s: BTreeSet<String> = BTreeSet::new(); // zippy's view of the chord being formed
    let mut gesture_start = 0usize;
    let mut deadline_from: Option<u64> = None;
    let mut last_is_chord = true;
    let mut acts_in_hold = 0u32;
    let mut prioritized_in_hold = false;
    let mut smart_sent = false;
    let mut hold_since_activation: Option<u64> = None;
    let (mut lsft, mut rsft, mut altgr) = (false, false, false);
    let mut ctrl = false;
    // events are taken from the input queue one per ms: the model works with the ms at which each
    // event is processed, not the ms at which it arrived
    let mut arrival = 0u64;
    for (i, op) in ops.iter().enumerate() {
        match op {
            Op::Gap(g) => arrival += *g as u64,
            Op::Press(_) | Op::Release(_) => now = (arrival + 1).max(now + 1),
            _ => {}
        }
        match op {
            Op::Gap(_) => {}
            Op::Press(c) => {
                let k = code_name(*c);
                match k.as_str() {
                    "LShift" => {
                        lsft = true;
                        continue;
                    }
                    "RShift" => {
                        rsft = true;
                        continue;
                    }
                    "RAlt" => {
                        altgr = true;
                        continue;
                    }
                    // a shortcut is being typed: zippychord does not look at ctrl itself, but what
                    // follows is not text - a smart space must not be erased for it
                    "LCtrl" => {
                        ctrl = true;
                        smart_sent = false;
                        continue;
                    }
                    // the user's own backspace: zippychord does not look at it; it removes what is
                    // in front of the cursor - a smart space included, which is then gone
                    "BSpace" => {
                        if m.text.pop().is_none() {
                            // (erases text typed before the session: outside of what is modelled)
                            m.ambiguous = Some("user backspace on empty text");
                            return m;
                        }
                        smart_sent = false;
                        // ... and what an earlier activation typed is no longer known to be in
                        // front of the cursor: no follow-up chord refers to it any more
                        chain = None;
                        chain_armed = false;
                        continue;
                    }
                    _ => {}
                }
                let slack = 3;
                let shift = lsft || rsft;
                // idle re-enable
                if !enabled {
                    if let Some(t0) = reenable_ref {
                        let el = now - t0;
                        if el >= idle + slack {
                            enabled = true;
                            reenable_ref = None;
                            s.clear();
                            deadline_from = None;
                        } else if el + slack >= idle {
                            m.ambiguous = Some("idle-reactivate boundary");
                            return m;
                        }
                    }
                }
                // forced state reset after 10000 idle ticks
                if now - last_event + slack >= 10000 {
                    m.ambiguous = Some("10000-tick reset boundary");
                    return m;
                }
                // holding an activated chord past the deadline disables zippy
                if let (true, Some(t0)) = (enabled, hold_since_activation.or(deadline_from)) {
                    let el = now - t0;
                    if el >= d + slack {
                        enabled = false;
                        reenable_ref = None;
                        chain = None;
                        s.clear();
                        smart_sent = false;
                        last_is_chord = false;
                        deadline_from = None;
                        hold_since_activation = None;
                        m.late_gestures += 1;
                    } else if el + slack >= d {
                        m.ambiguous = Some("chord deadline boundary");
                        return m;
                    }
                }
                last_event = now;
                held.insert(k.clone());
                // smart-space punctuation (checked before anything else, enabled or not)
                if smart_sent && smart == "full" && !shift && !altgr && PUNCT.contains(&k.as_str()) {
                    m.text.pop();
                    m.smart_space_erased += 1;
                }
                smart_sent = false;
                // (with ctrl held the key is a shortcut, written as a character of its own here)
                let typed: Ch = (if ctrl { format!("Ctrl+{k}") } else { k.clone() }, shift && k != "Space", altgr);
                if !enabled {
                    m.text.push(typed);
                    m.passthrough_presses += 1;
                    if reenable_ref.is_none() {
                        m.not_reenabled += 0;
                    }
                    continue;
                }
                if deadline_from.is_none() {
                    deadline_from = Some(now);
                }
                if s.is_empty() {
                    // zippy starts watching a new chord here
                    gesture_start = m.text.len();
                    acts_in_hold = 0;
                    prioritized_in_hold = false;
                }
                s.insert(k.clone());
                // lookup: follow-ups of the chain first, then the top level
                let mut hit: Option<(&Node, bool, Vec<BTreeSet<String>>)> = None;
                let mut subset = false;
                if let (Some((path, _)), true) = (&chain, chain_armed) {
                    if let Some(n) = dict.root.at(path) {
                        match n.look(&s) {
                            Look::Exact(a) => {
                                let mut p = path.clone();
                                p.push(s.clone());
                                hit = Some((a, true, p));
                            }
                            Look::Subset => subset = true,
                            Look::Neither => {}
                        }
                    }
                }
                if hit.is_none() {
                    match dict.root.look(&s) {
                        Look::Exact(a) => hit = Some((a, false, vec![s.clone()])),
                        Look::Subset => subset = true,
                        Look::Neither => {}
                    }
                }
                match hit {
                    Some((a, prioritized, path)) => {
                        if acts_in_hold > 0 && prioritized != prioritized_in_hold {
                            m.ambiguous = Some("follow-up and top-level activation mixed in one hold");
                            return m;
                        }
                        m.activations += 1;
                        if prioritized {
                            m.followup_activations += 1;
                            if s.len() > 1 {
                                m.multi_key_followups += 1;
                            }
                        }
                        if acts_in_hold > 0 {
                            m.superseded += 1;
                        }
                        let base = if prioritized { chain.as_ref().map(|c| c.1).unwrap_or(gesture_start) } else { gesture_start };
                        if let Some(out) = &a.out {
                            if out.iter().any(|c| held.contains(&c.0) && !s.contains(&c.0)) {
                                m.output_key_held_outside_view = true;
                            }
                        }
                        match &a.out {
                            Some(out) if !out.is_empty() => {
                                m.text.truncate(base);
                                let from = m.text.len();
                                m.text.extend(out.iter().cloned());
                                if shift {
                                    m.shifted_activations += 1;
                                    m.lenient_from.push((from, m.text.len()));
                                }
                                if altgr {
                                    m.altgr_activations += 1;
                                }
                                let last = out.last().unwrap();
                                if smart != "none" && last.0 != "Space" && last.0 != "BSpace" {
                                    m.text.push(("Space".into(), false, false));
                                    m.smart_spaces += 1;
                                    if smart == "full" {
                                        smart_sent = true;
                                    }
                                }
                            }
                            _ => {
                                // step towards a follow-up: the key types itself
                                m.text.push(typed);
                            }
                        }
                        chain = if a.children.is_empty() { None } else { Some((path, base)) };
                        chain_armed = false;
                        acts_in_hold += 1;
                        prioritized_in_hold = prioritized;
                        last_is_chord = true;
                        deadline_from = Some(now);
                        hold_since_activation = Some(now);
                    }
                    None if subset => {
                        m.text.push(typed);
                        last_is_chord = false;
                        m.passthrough_presses += 1;
                    }
                    None => {
                        m.text.push(typed);
                        m.passthrough_presses += 1;
                        enabled = false;
                        reenable_ref = None;
                        chain = None;
                        s.clear();
                        last_is_chord = false;
                        deadline_from = None;
                        hold_since_activation = None;
                    }
                }
            }
            Op::Release(c) => {
                let k = code_name(*c);
                match k.as_str() {
                    "LShift" => {
                        lsft = false;
                        continue;
                    }
                    "RShift" => {
                        rsft = false;
                        continue;
                    }
                    "RAlt" => {
                        altgr = false;
                        continue;
                    }
                    "LCtrl" => {
                        ctrl = false;
                        continue;
                    }
                    // (zippychord does not look at the user's backspace at all)
                    "BSpace" => continue,
                    _ => {}
                }
                let slack = 3;
                // deadline may have passed while holding
                if let (true, Some(t0)) = (enabled, hold_since_activation.or(deadline_from)) {
                    let el = now - t0;
                    if el >= d + slack {
                        enabled = false;
                        reenable_ref = None;
                        chain = None;
                        s.clear();
                        smart_sent = false;
                        last_is_chord = false;
                        deadline_from = None;
                        hold_since_activation = None;
                        m.late_gestures += 1;
                    } else if el + slack >= d {
                        m.ambiguous = Some("chord deadline boundary (release)");
                        return m;
                    }
                }
                if !enabled {
                    if let Some(t0) = reenable_ref {
                        // a key held across the idle time re-enables zippy under the user's fingers
                        if now - t0 + slack >= idle {
                            m.ambiguous = Some("key held across idle-reactivate time");
                            return m;
                        }
                    }
                }
                last_event = now;
                held.remove(&k);
                s.remove(&k);
                if enabled {
                    if last_is_chord {
                        deadline_from = None;
                        hold_since_activation = None;
                        if s.is_empty() {
                            acts_in_hold = 0;
                            chain_armed = true;
                        }
                    } else if s.is_empty() {
                        enabled = false;
                        reenable_ref = Some(now);
                        chain = None;
                        deadline_from = None;
                        hold_since_activation = None;
                    } else {
                        // release without activation while other chord keys are held
                        enabled = false;
                        reenable_ref = None;
                        chain = None;
                        s.clear();
                        smart_sent = false;
                        deadline_from = None;
                        hold_since_activation = None;
                    }
                } else {
                    // disabled: the idle time counts from a release that leaves zippy's view empty
                    if s.is_empty() {
                        reenable_ref = Some(now);
                    }
                }
            }
            _ => {}
        }
    }
    m
}

/// punctuation / other mapped output characters used by the generator
const MAPPINGS: &[(char, &str, &str, bool, bool)] = &[('!', "S-1", "Kb1", true, false), ('?', "S-/", "Slash", true, false), ('é', "AG-e", "E", false, true), ('€', "S-AG-5", "Kb5", true, true), ('ô', "(single-output ' o)", "Quote+O", false, false)];

impl Prop for C20 {
    fn id(&self) -> &'static str {
        "C20"
    }
    fn rule_text(&self) -> String {
        "case = generated zippy dictionary (2-7 lines over 4-7 chord keys incl. space: overlapping chords, chords extending other chords, single-key chords, follow-up chains to depth 3 with 1-3-key follow-up chords, output-less chain steps, outputs with upper/lower case, digits, spaces, shared prefixes, S-/AG-/S-AG- mapped characters), deadline and idle-reactivate time in {15,40,500}, all smart-space modes; history = 1-6 segments of: an entry's chain pressed in a sampled permutation with gaps below / at / above the deadline (optionally with lsft / rsft / ralt held - around one chord or across several segments -, optionally continuing into a superset chord), partial chords, neutral typing, punctuation, idle waits below / at / above the idle-reactivate time. Oracle: the OS output replayed into a text buffer equals the text of a documentation-level reference model (an activation replaces what the gesture / chain put on screen by the expansion + smart space; everything else passes through); no backspace on an empty buffer; at the end nothing is down and while shift / altgr are held they are down at the OS after every activation. Windows where the outcome depends on the exact tick (deadline, idle time) stop the judgement. non-trivial = at least one activation in the model; distinct = config x dictionary x history hash.".into()
    }
    fn runs(&self, tier: Tier) -> u64 {
        match tier {
            Tier::Quick => 400_000,
            Tier::Thorough => 20_000_000,
        }
    }
    fn gen(&self, seed: u64, _tier: Tier) -> Case {
        let mut r = Rng::new(seed);
        let mut case = Case { prop: "C20".into(), seed, ..Default::default() };
        // alphabet
        let mut pool: Vec<char> = "asdfghjklqwertyuiopzxcvbnm1234".chars().collect();
        r.shuffle(&mut pool);
        let nk = r.range(4, 7) as usize;
        let mut chord_keys: Vec<char> = pool[..nk].to_vec();
        if r.chance(250) {
            chord_keys.push(' ');
        }
        // a smart-space punctuation key may itself be a chord key: pressed after a smart space it
        // erases the space, and the chord it then forms erases the punctuation character like any
        // other character typed while forming a chord
        if r.chance(150) {
            chord_keys.push(*r.pick(&['.', ',']));
        }
        let neutral: Vec<char> = pool[nk..nk + 3].to_vec();
        let with_map = r.chance(300);
        // outputs
        let out_alpha: Vec<char> = {
            let mut v: Vec<char> = chord_keys.iter().copied().filter(|c| *c != ' ').collect();
            v.extend(neutral.iter().copied());
            v.extend("etao".chars());
            v
        };
        let gen_out = |r: &mut Rng, parent: Option<&str>| -> String {
            let mut s = String::new();
            if let Some(p) = parent {
                if r.chance(500) {
                    // shared prefix with the output it supersedes
                    let n = r.range(0, p.chars().count() as u64) as usize;
                    s.extend(p.chars().take(n));
                }
            }
            let n = r.range(1, 7);
            for i in 0..n {
                let c = *r.pick(&out_alpha);
                let roll = r.below(100);
                if roll < 12 && c.is_alphabetic() {
                    s.extend(c.to_uppercase());
                } else if roll < 18 && i > 0 && i + 1 < n {
                    s.push(' ');
                } else if roll < 24 && with_map {
                    s.push(MAPPINGS[r.below(MAPPINGS.len() as u64) as usize].0);
                } else {
                    s.push(c);
                }
            }
            if r.chance(120) {
                s.push(' ');
            }
            if s.trim().is_empty() {
                s = "ok".into();
            }
            s
        };
        let gen_chord = |r: &mut Rng, keys: &[char], max: u64| -> Vec<char> {
            let mut ks: Vec<char> = keys.to_vec();
            r.shuffle(&mut ks);
            let n = match r.pick_w(&[10, 55, 25, 10]) {
                0 => 1,
                1 => 2,
                2 => 3,
                _ => 4,
            }
            .min(max)
            .min(ks.len() as u64) as usize;
            ks.truncate(n.max(1));
            ks
        };
        let chord_text = |ks: &[char]| -> String {
            // space must be written first
            let mut s = String::new();
            if ks.contains(&' ') {
                s.push(' ');
            }
            s.extend(ks.iter().filter(|c| **c != ' '));
            s
        };
        let norm = |ks: &[char]| -> Vec<char> {
            let mut v = ks.to_vec();
            v.sort();
            v
        };
        // lines: (chain of chords, output)
        let mut lines: Vec<(Vec<Vec<char>>, String)> = vec![];
        let nlines = r.range(2, 7);
        for _ in 0..nlines {
            let roll = r.below(100);
            if roll < 45 || lines.is_empty() {
                // top-level chord
                let ch = gen_chord(&mut r, &chord_keys, 4);
                if lines.iter().any(|(c, _)| c.len() == 1 && norm(&c[0]) == norm(&ch)) {
                    continue;
                }
                let o = gen_out(&mut r, None);
                lines.push((vec![ch], o));
            } else if roll < 65 {
                // extension of an existing top-level chord
                let tops: Vec<(Vec<char>, String)> = lines.iter().filter(|(c, _)| c.len() == 1).map(|(c, o)| (c[0].clone(), o.clone())).collect();
                if tops.is_empty() {
                    continue;
                }
                let (base, bo) = r.pick(&tops).clone();
                let extra: Vec<char> = chord_keys.iter().copied().filter(|k| !base.contains(k)).collect();
                if extra.is_empty() {
                    continue;
                }
                let mut ch = base.clone();
                ch.push(*r.pick(&extra));
                if lines.iter().any(|(c, _)| c.len() == 1 && norm(&c[0]) == norm(&ch)) {
                    continue;
                }
                let o = gen_out(&mut r, Some(&bo));
                lines.push((vec![ch], o));
            } else if roll < 92 {
                // follow-up of an existing line
                let (pc, po) = r.pick(&lines).clone();
                if pc.len() >= 3 {
                    continue;
                }
                let fkeys: Vec<char> = if r.chance(500) { chord_keys.clone() } else { chord_keys.iter().chain(neutral.iter()).copied().collect() };
                let ch = gen_chord(&mut r, &fkeys, 3);
                let mut chain = pc.clone();
                chain.push(ch);
                if lines.iter().any(|(c, _)| c.len() == chain.len() && c.iter().zip(chain.iter()).all(|(a, b)| norm(a) == norm(b))) {
                    continue;
                }
                let o = gen_out(&mut r, Some(&po));
                lines.push((chain, o));
            } else {
                // chain whose first step has no output of its own ("r df")
                let c1 = gen_chord(&mut r, &chord_keys, 2);
                if lines.iter().any(|(c, _)| norm(&c[0]) == norm(&c1)) {
                    continue;
                }
                let c2 = gen_chord(&mut r, &chord_keys, 3);
                let o = gen_out(&mut r, None);
                lines.push((vec![c1, c2], o));
            }
        }
        let mut file = String::new();
        for (chain, o) in &lines {
            let input: Vec<String> = chain.iter().map(|c| chord_text(c)).collect();
            file.push_str(&format!("{}\t{}\n", input.join(" "), o));
        }
        // config
        let d = *r.pick(&[15u64, 40, 500]);
        let idle = *r.pick(&[15u64, 40, 500]);
        let smart = *r.pick(&["none", "none", "add-space-only", "full", "full"]);
        let mut z = format!("(defzippy zippy.txt on-first-press-chord-deadline {d} idle-reactivate-time {idle} smart-space {smart}");
        if with_map {
            z.push_str(" output-character-mappings (");
            for (c, m, _, _, _) in MAPPINGS {
                z.push_str(&format!(" {c} {m}"));
            }
            z.push(')');
        }
        z.push(')');
        case.cfg = format!("(defcfg process-unmapped-keys yes)\n(defsrc lsft rsft ralt)\n(deflayer base lsft rsft ralt)\n{z}\n");
        case.files = vec![("zippy.txt".into(), file)];
        case.set("d", d);
        case.set("idle", idle);
        case.set("smart", smart);
        case.set("with_map", with_map as u8);
        case.set("min_cfg", 0);
        // history
        let code = |c: char| oscode_of(&kname_of_char(c));
        let mut ops: Vec<Op> = vec![];
        let nseg = r.range(1, 6);
        let small_gap = |r: &mut Rng, d: u64| -> u64 {
            match r.pick_w(&[30, 50, 20]) {
                0 => 0,
                1 => r.range(1, 3),
                _ => r.range(1, (d / 6).max(1)),
            }
        };
        // a modifier may stay held across several segments (neutral typing, a partial chord, an
        // expired deadline, an idle wait, then a chord): what zippychord believes about held
        // modifiers must survive its resets
        let mut long_mod: Option<(&str, u64)> = None;
        // likewise an ordinary key that is in no top-level chord but may occur in expansions: typed
        // once and then simply kept down over the following segments (resets, idle waits, chords
        // whose expansion contains it: it is then typed by releasing and pressing it again)
        let mut long_key: Option<(char, u64)> = None;
        for _ in 0..nseg {
            if long_key.is_none() && long_mod.is_none() && r.chance(100) {
                let k = *r.pick(&neutral);
                ops.push(Op::Press(code(k)));
                ops.push(Op::Gap(r.range(1, 5) as u32));
                long_key = Some((k, r.range(1, 3)));
            } else if let Some((k, left)) = long_key {
                if left == 0 {
                    ops.push(Op::Gap(1));
                    ops.push(Op::Release(code(k)));
                    ops.push(Op::Gap(r.range(1, 6) as u32));
                    long_key = None;
                } else {
                    long_key = Some((k, left - 1));
                }
            }
            if long_mod.is_none() && r.chance(120) {
                let m = *r.pick(&["lsft", "rsft", "ralt"]);
                ops.push(Op::Press(oscode_of(m)));
                ops.push(Op::Gap(r.range(1, 3) as u32));
                long_mod = Some((m, r.range(2, 4)));
            } else if let Some((m, left)) = long_mod {
                if left == 0 {
                    ops.push(Op::Gap(1));
                    ops.push(Op::Release(oscode_of(m)));
                    ops.push(Op::Gap(r.range(1, 6) as u32));
                    long_mod = None;
                } else {
                    long_mod = Some((m, left - 1));
                }
            }
            let roll = r.below(100);
            if roll < 60 {
                // an entry's chain
                let (chain, _) = r.pick(&lines).clone();
                let modk = match if long_mod.is_some() { 0 } else { r.pick_w(&[70, 12, 8, 10]) } {
                    0 => None,
                    1 => Some("lsft"),
                    2 => Some("rsft"),
                    _ => Some("ralt"),
                };
                let mod_whole = r.chance(500);
                for (ci, chord) in chain.iter().enumerate() {
                    let mut perm = chord.clone();
                    r.shuffle(&mut perm);
                    let use_mod = modk.is_some() && (mod_whole || ci + 1 == chain.len());
                    if use_mod {
                        ops.push(Op::Press(oscode_of(modk.unwrap())));
                        ops.push(Op::Gap(r.range(1, 3) as u32));
                    }
                    let timing = r.pick_w(&[80, 10, 10]);
                    for (ki, k) in perm.iter().enumerate() {
                        if ki > 0 {
                            let g = match timing {
                                0 => small_gap(&mut r, d),
                                1 if ki + 1 == perm.len() => *r.pick(&[d - 1, d, d + 1, d - 3, d + 4]),
                                2 if ki + 1 == perm.len() => d + 8 + r.range(0, 20),
                                _ => small_gap(&mut r, d),
                            };
                            ops.push(Op::Gap(g as u32));
                        }
                        ops.push(Op::Press(code(*k)));
                    }
                    // optionally continue into a superset chord while holding
                    if r.chance(150) {
                        let supers: Vec<&Vec<char>> = lines.iter().filter(|(c, _)| c.len() == 1 && chord.iter().all(|k| c[0].contains(k)) && c[0].len() > chord.len()).map(|(c, _)| &c[0]).collect();
                        if !supers.is_empty() && ci == 0 {
                            let sup = (*r.pick(&supers)).clone();
                            for k in sup.iter().filter(|k| !chord.contains(k)) {
                                ops.push(Op::Gap(small_gap(&mut r, d) as u32));
                                ops.push(Op::Press(code(*k)));
                                perm.push(*k);
                            }
                        }
                    }
                    let hold = match r.pick_w(&[85, 8, 7]) {
                        0 => r.range(1, (d / 3).max(2)),
                        1 => *r.pick(&[d - 1, d, d + 2]),
                        _ => d + 10,
                    };
                    ops.push(Op::Gap(hold as u32));
                    r.shuffle(&mut perm);
                    for k in &perm {
                        ops.push(Op::Release(code(*k)));
                        ops.push(Op::Gap(r.range(0, 2) as u32));
                    }
                    if use_mod {
                        ops.push(Op::Gap(1));
                        ops.push(Op::Release(oscode_of(modk.unwrap())));
                    }
                    ops.push(Op::Gap(match r.pick_w(&[70, 20, 10]) {
                        0 => r.range(1, 12),
                        1 => r.range(12, 80),
                        _ => idle + 6,
                    } as u32));
                }
            } else if roll < 70 {
                // partial chord
                let (chain, _) = r.pick(&lines).clone();
                let chord = &chain[0];
                if chord.len() >= 2 {
                    let mut perm = chord.clone();
                    r.shuffle(&mut perm);
                    perm.truncate(r.range(1, chord.len() as u64 - 1) as usize);
                    for k in &perm {
                        ops.push(Op::Press(code(*k)));
                        ops.push(Op::Gap(small_gap(&mut r, d) as u32));
                    }
                    ops.push(Op::Gap(r.range(1, 5) as u32));
                    for k in &perm {
                        ops.push(Op::Release(code(*k)));
                        ops.push(Op::Gap(r.range(0, 2) as u32));
                    }
                }
            } else if roll < 82 {
                // neutral typing / sequential typing of chord keys
                let n = r.range(1, 4);
                for _ in 0..n {
                    if r.chance(100) {
                        // the user's own backspace
                        let bs = oscode_of("bspc");
                        ops.push(Op::Press(bs));
                        ops.push(Op::Gap(r.range(1, 4) as u32));
                        ops.push(Op::Release(bs));
                        ops.push(Op::Gap(r.range(1, 6) as u32));
                        continue;
                    }
                    let k = if r.chance(700) { *r.pick(&neutral) } else { *r.pick(&chord_keys) };
                    ops.push(Op::Press(code(k)));
                    ops.push(Op::Gap(r.range(1, 4) as u32));
                    ops.push(Op::Release(code(k)));
                    ops.push(Op::Gap(r.range(1, 6) as u32));
                }
            } else if roll < 90 {
                // punctuation right away, sometimes after the user's own backspace
                if r.chance(250) {
                    let bs = oscode_of("bspc");
                    ops.push(Op::Press(bs));
                    ops.push(Op::Gap(2));
                    ops.push(Op::Release(bs));
                    ops.push(Op::Gap(r.range(1, 6) as u32));
                }
                if long_mod.is_none() && r.chance(200) {
                    // a shortcut (ctrl + ';', never a chord key): passes through as it is, also
                    // right after a smart space
                    let (lc, sc) = (oscode_of("lctl"), code(';'));
                    ops.extend([Op::Press(lc), Op::Gap(2), Op::Press(sc), Op::Gap(2), Op::Release(sc), Op::Gap(1), Op::Release(lc)]);
                    ops.push(Op::Gap(r.range(1, 6) as u32));
                    continue;
                }
                let p = *r.pick(&['.', ',', ';']);
                ops.push(Op::Press(code(p)));
                ops.push(Op::Gap(2));
                ops.push(Op::Release(code(p)));
                ops.push(Op::Gap(r.range(1, 6) as u32));
            } else {
                // idle wait around the re-enable time
                let g = *r.pick(&[idle + 6, idle + 6, idle + 30, idle.saturating_sub(6).max(1), idle, idle + 1]);
                ops.push(Op::Gap(g as u32));
            }
        }
        if let Some((m, _)) = long_mod {
            ops.push(Op::Gap(1));
            ops.push(Op::Release(oscode_of(m)));
        }
        if let Some((k, _)) = long_key {
            ops.push(Op::Gap(1));
            ops.push(Op::Release(code(k)));
        }
        ops.push(Op::Gap(30));
        case.ops = ops;
        case
    }

    fn check(&self, case: &Case, want_sample: bool) -> RunOut {
        if !history_consistent(&case.ops) {
            return RunOut::skip("history-not-consistent");
        }
        let file = match case.files.iter().find(|(n, _)| n == "zippy.txt") {
            Some((_, f)) => f.clone(),
            None => return RunOut::skip("no-dictionary"),
        };
        let d = cfg_opt(&case.cfg, "on-first-press-chord-deadline").and_then(|s| s.parse().ok()).unwrap_or(500u64);
        let idle = cfg_opt(&case.cfg, "idle-reactivate-time").and_then(|s| s.parse().ok()).unwrap_or(500u64);
        let smart = cfg_opt(&case.cfg, "smart-space ").unwrap_or_else(|| "none".into());
        let mappings: Vec<(char, Ch)> = if case.cfg.contains("output-character-mappings") { MAPPINGS.iter().map(|(c, _, k, s, a)| (*c, (k.to_string(), *s, *a))).collect() } else { vec![] };
        let dict = match parse_dict(&file, &mappings) {
            Some(d) => d,
            None => return RunOut::skip("dictionary-not-parsable-by-reference"),
        };
        // the reference reading must not see anything but press / release / gap
        if case.ops.iter().any(|o| !matches!(o, Op::Press(_) | Op::Release(_) | Op::Gap(_))) {
            return RunOut::skip("history-shape-not-of-this-population");
        }
        // a key must not be pressed again within the same hold of itself... (consistent history
        // guarantees this); every key must be a character key or lsft / rsft / ralt
        for op in &case.ops {
            if let Op::Press(c) = op {
                let k = code_name(*c);
                let ok = k.len() == 1 || k.starts_with("Kb") || matches!(k.as_str(), "Space" | "Dot" | "Comma" | "SColon" | "LShift" | "RShift" | "RAlt" | "BSpace" | "LCtrl");
                if !ok {
                    return RunOut::skip("history-shape-not-of-this-population");
                }
            }
        }
        let mut st = match Stepper::new_filtered(&case.cfg, &case.files, Mode::Ticking) {
            Ok(s) => s,
            Err(_) => return RunOut::skip("parser-rejected"),
        };
        let mut o = RunOut::pass();
        // run, checking modifier restoration after every input
        let mut tb = TextBuf::default();
        let mut applied = 0usize;
        let (mut lsft, mut rsft, mut ralt) = (false, false, false);
        let mut mod_viol: Option<String> = None;
        for (i, op) in case.ops.iter().enumerate() {
            st.apply(i, op);
            match op {
                Op::Press(c) | Op::Release(c) => {
                    let down = matches!(op, Op::Press(_));
                    match code_name(*c).as_str() {
                        "LShift" => lsft = down,
                        "RShift" => rsft = down,
                        "RAlt" => ralt = down,
                        _ => {}
                    }
                }
                Op::Gap(g) if *g >= 2 => {
                    // everything queued has been processed (<= 1 event per ms queued by the generator
                    // bursts are short); compare modifier state with what the user holds
                    while applied < st.trace.outs.len() {
                        tb.apply(&st.trace.outs[applied]);
                        applied += 1;
                    }
                    let pending = st.k.layout.b().queue.len();
                    if pending == 0 && mod_viol.is_none() {
                        for (name, want) in [("LShift", lsft), ("RShift", rsft), ("RAlt", ralt)] {
                            if tb.down.contains(name) != want {
                                mod_viol = Some(format!("at {} ms the user {} {name} but at the OS it is {}", st.now, if want { "holds" } else { "does not hold" }, if want { "up" } else { "down" }));
                            }
                        }
                    }
                }
                _ => {}
            }
        }
        st.gap(40);
        st.finish();
        while applied < st.trace.outs.len() {
            tb.apply(&st.trace.outs[applied]);
            applied += 1;
        }
        o.sim_ms = st.trace.sim_ms;
        probes_into(&mut o, &st.probes, &st.trace);
        let m = run_model(&dict, &case.ops, d, idle, &smart);
        let mut sig = fnv(0, case.cfg.as_bytes());
        sig = fnv(sig, file.as_bytes());
        for op in &case.ops {
            sig = fnv(sig, op.short().as_bytes());
        }
        o.sig = sig;
        o.nontrivial = m.activations > 0 && m.ambiguous.is_none();
        o.count("dict.lines", dict.lines.len() as u64);
        o.count("model.activations", m.activations);
        o.count("model.followup_activations", m.followup_activations);
        o.count("model.multi_key_followup_activations", m.multi_key_followups);
        o.count("model.superseded_shorter_expansion", m.superseded);
        o.count("model.smart_spaces_added", m.smart_spaces);
        o.count("model.smart_space_erased_by_punctuation", m.smart_space_erased);
        o.count("model.passthrough_presses", m.passthrough_presses);
        o.count("model.deadline_missed", m.late_gestures);
        o.count("model.activations_with_shift_held", m.shifted_activations);
        o.count("model.activations_with_altgr_held", m.altgr_activations);
        o.count(&format!("cfg.smart-space.{smart}"), 1);
        // invariants that hold whatever the timing
        let ds = st.down_set();
        if !ds.is_empty() {
            o.set_fail("C20:stuck-at-end", format!("still down after all keys were released: {:?}: {}", ds.keys, outs_short(&st.trace.outs)), vec![]);
            return o;
        }
        if let Some(a) = m.ambiguous {
            o.count(&format!("unjudged.{}", a.replace(' ', "-")), 1);
            if want_sample {
                o.sample = Some(sample_json(case, &st.trace.outs, json!({"unjudged": a})));
            }
            return o;
        }
        if tb.underflow > 0 {
            o.set_fail("C20:backspace-on-empty-buffer", format!("{} backspaces hit an empty buffer (text typed before the session would be erased): {}", tb.underflow, outs_short(&st.trace.outs)), vec![]);
            return o;
        }
        if let Some(v) = mod_viol {
            o.set_fail("C20:modifier-not-restored", format!("{v}: {}", outs_short(&st.trace.outs)), vec![]);
            return o;
        }
        // text comparison (shift-lenient at the first typed character of an activation made with shift held)
        let got = &tb.text;
        let want = &m.text;
        let mut same = got.len() == want.len();
        if same {
            let mut extra_shift: Vec<usize> = vec![];
            for (i, (g, w)) in got.iter().zip(want.iter()).enumerate() {
                if g == w {
                    continue;
                }
                if g.0 == w.0 && g.2 == w.2 && g.1 && !w.1 {
                    extra_shift.push(i);
                } else {
                    same = false;
                    break;
                }
            }
            if same {
                // each range may carry at most one extra shift
                for i in &extra_shift {
                    if !m.lenient_from.iter().any(|(a, b)| i >= a && i < b) {
                        same = false;
                    }
                }
                // every activation made with shift held capitalises the first character it types
                if extra_shift.len() as u64 > m.shifted_activations {
                    same = false;
                }
            }
        }
        if !same {
            let mut tags = vec![];
            if !tb.dup_press.is_empty() {
                tags.push("key-pressed-while-down".to_string());
            }
            if m.output_key_held_outside_view {
                tags.push("output-key-held-outside-zippy-view".to_string());
            }
            o.set_fail("C20:text-differs", format!("screen shows \"{}\" but the dictionary semantics give \"{}\" (dictionary: {:?}; ops: {}): {}", show(got), show(want), file, ops_short(&case.ops), outs_short(&st.trace.outs)), tags);
            return o;
        }
        if !tb.dup_press.is_empty() {
            o.count("observed.press-of-key-already-down", tb.dup_press.len() as u64);
        }
        if want_sample {
            o.sample = Some(sample_json(case, &st.trace.outs, json!({"text": show(got), "activations": m.activations})));
        }
        o
    }
    fn assumptions(&self) -> Vec<String> {
        vec![
            "the receiving application is a plain text field: a key press appends one character (with the shift / altgr state at that instant), backspace removes one, a press of a key that is already down is ignored (Linux input core)".into(),
            "with shift held the first character typed by an activation is shifted (documented behaviour); one extra shift inside the expansion is accepted in that case".into(),
            "gaps within (3 + queued events) ms of the chord deadline / idle-reactivate time / 10000-tick reset are not judged; no-erase and single-output mappings (dead keys) are outside the text model".into(),
        ]
    }
}
