//! Helpers shared by the property checkers.

use crate::exec_a::*;
use crate::ops::*;
use crate::sx::*;
use crate::trace::*;
use serde_json::json;

/// Sum of all numeric atoms (<= 65535) and count of atoms in a config text: the raw material of the
/// quiescence bound "bounded by the configured timeouts and macro lengths".
pub fn cfg_numbers(cfg: &str) -> (u64, u64) {
    let mut sum = 0u64;
    let mut atoms = 0u64;
    if let Some(forms) = parse_top(cfg) {
        for f in &forms {
            f.walk(&mut vec![], &mut |_, n| {
                if let SX::A(s) = n {
                    atoms += 1;
                    if let Ok(v) = s.parse::<u64>() {
                        if v <= 65535 {
                            sum += v;
                        }
                    }
                }
            });
        }
    }
    (sum, atoms)
}

/// Quiescence bound Q(cfg, history) in ms.
pub fn quiescence_bound(cfg: &str, ops: &[Op]) -> u64 {
    let (sum, atoms) = cfg_numbers(cfg);
    let mut q = 4 * (sum + atoms) + 1000;
    if cfg.contains("dynamic-macro") {
        // recorded replay reproduces the typed gaps (each capped at u16) plus 5 ms per event
        let gaps: u64 = ops
            .iter()
            .map(|o| match o {
                Op::Gap(n) | Op::ClockJump(n) => (*n as u64).min(65535),
                _ => 5,
            })
            .sum();
        q += 2 * gaps;
    }
    q
}

pub fn sample_json(case: &Case, outs: &[OutEv], extra: serde_json::Value) -> serde_json::Value {
    json!({
        "seed": format!("{:#x}", case.seed),
        "cfg": case.cfg,
        "ops": ops_short(&case.ops),
        "out": outs_short(&outs[..outs.len().min(80)]),
        "info": extra,
    })
}

pub fn probes_into(o: &mut crate::props::RunOut, p: &Probes, t: &Trace) {
    o.count("probe.queue_len_32_hit", (p.max_queue >= 32) as u64);
    o.count("probe.event_arrived_with_full_queue", p.queue_full_on_event);
    o.count("probe.states_at_64", (p.max_states >= 64) as u64);
    o.count("probe.more_than_10_held_layers", (p.max_held_layers > 10) as u64);
    o.count("probe.extra_waiting_ge1", (p.max_extra_waiting >= 1) as u64);
    o.count("probe.extra_waiting_eq8", (p.max_extra_waiting >= 8) as u64);
    o.count("probe.oneshot_keys_ge2", (p.max_oneshot_keys >= 2) as u64);
    o.count("probe.oneshot_keys_eq16", (p.max_oneshot_keys >= 16) as u64);
    o.count("probe.active_sequences_eq4", (p.max_active_sequences >= 4) as u64);
    o.count("probe.action_queue_ge2", (p.max_action_queue >= 2) as u64);
    o.count("probe.action_queue_eq8", (p.max_action_queue >= 8) as u64);
    o.count("probe.tap_hold_waiting", (p.waiting_seen > 0) as u64);
    o.count("probe.chords_v2_active", (p.chv2_active_seen > 0) as u64);
    o.count("probe.sequence_mode", (p.seq_mode_seen > 0) as u64);
    o.count("probe.on_idle_armed", (p.on_idle_armed > 0) as u64);
    o.count("probe.vkey_hold_pending", (p.vkeys_pending_seen > 0) as u64);
    o.count("probe.dynamic_macro_replay", (p.dyn_replay_seen > 0) as u64);
    o.count("probe.dynamic_macro_record", (p.dyn_record_seen > 0) as u64);
    o.count("probe.caps_word_active", (p.caps_word_seen > 0) as u64);
    o.count("probe.idle_block_refused_only_by_switch_timing", (p.blocked_only_by_switch_timing > 0) as u64);
    o.count("probe.idle_block_taken", (t.skipped_ms > 0) as u64);
    o.count("probe.virtual_sleep_in_action", (p.virtual_sleep_ns > 0) as u64);
}

pub fn fault_counts(o: &mut crate::props::RunOut, ops: &[Op]) {
    let mut burst = 0u64;
    let mut cur = 0u64;
    let mut down: Vec<u16> = vec![];
    let mut dup = 0;
    let mut orphan = 0;
    let mut jumps = 0;
    let mut repeats = 0;
    let mut vk = 0;
    let mut longgap = 0;
    for op in ops {
        match op {
            Op::Press(c) => {
                cur += 1;
                if down.contains(c) {
                    dup += 1;
                } else {
                    down.push(*c);
                }
            }
            Op::Release(c) => {
                cur += 1;
                if let Some(p) = down.iter().position(|x| x == c) {
                    down.remove(p);
                } else {
                    orphan += 1;
                }
            }
            Op::Repeat(_) => {
                cur += 1;
                repeats += 1;
            }
            Op::TapEvt(_) => cur += 1,
            Op::Gap(n) => {
                if *n > 0 {
                    if cur > 32 {
                        burst += 1;
                    }
                    cur = 0;
                }
                if *n >= 10_000 {
                    longgap += 1;
                }
            }
            Op::ClockJump(_) => {
                jumps += 1;
                cur = 0;
            }
            Op::Vkey(..) | Op::ChangeLayer(_) => vk += 1,
            _ => {}
        }
    }
    if cur > 32 {
        burst += 1;
    }
    o.count("fault.burst_gt32_events_in_one_ms", burst);
    o.count("fault.dup_press", dup);
    o.count("fault.orphan_release", orphan);
    o.count("fault.clock_jump", jumps);
    o.count("input.repeat_events", repeats);
    o.count("input.tcp_style_ops", vk);
    o.count("input.gap_ge_10000ms", longgap);
}

/// Outputs in [from, to) of kinds that represent continuous mouse/scroll output.
pub fn continuous_outputs_in(outs: &[OutEv], from: u64, to: u64) -> usize {
    outs.iter().filter(|e| e.t >= from && e.t < to && matches!(e.kind, OutKind::Scroll | OutKind::MouseMove)).count()
}

/// Which conjunct of the idle predicate is false (diagnostic for reports).
pub fn idle_breakdown(k: &kanata_state_machine::Kanata) -> String {
    use kanata_keyberon::layout::State;
    let l = k.layout.b();
    let mut v: Vec<String> = vec![];
    if !l.queue.is_empty() {
        v.push(format!("queue.len={}", l.queue.len()));
    }
    if l.waiting.is_some() {
        v.push("waiting".into());
    }
    if !l.extra_waiting.is_empty() {
        v.push(format!("extra_waiting={}", l.extra_waiting.len()));
    }
    if l.last_press_tracker.tap_hold_timeout != 0 {
        v.push("tap_hold_timeout".into());
    }
    if !(l.oneshot.timeout == 0 || l.oneshot.keys.is_empty()) {
        v.push(format!("oneshot(timeout={},keys={})", l.oneshot.timeout, l.oneshot.keys.len()));
    }
    if !l.active_sequences.is_empty() {
        v.push("active_sequences".into());
    }
    if l.tap_dance_eager.is_some() {
        v.push("tap_dance_eager".into());
    }
    if !l.action_queue.is_empty() {
        v.push("action_queue".into());
    }
    if !k.sequence_state.is_inactive() {
        v.push("sequence_state".into());
    }
    if k.scroll_state.is_some() || k.hscroll_state.is_some() {
        v.push("scroll_state".into());
    }
    if k.move_mouse_state_vertical.is_some() || k.move_mouse_state_horizontal.is_some() {
        v.push("move_mouse_state".into());
    }
    if k.macro_on_press_cancel_duration != 0 {
        v.push("macro_on_press_cancel_duration".into());
    }
    if k.dynamic_macro_replay_state.is_some() {
        v.push("dynamic_macro_replay".into());
    }
    if k.caps_word.is_some() {
        v.push("caps_word".into());
    }
    if !k.vkeys_pending_release.is_empty() {
        v.push("vkeys_pending_release".into());
    }
    if !k.waiting_for_idle.is_empty() {
        v.push("waiting_for_idle".into());
    }
    if l.states.iter().any(|s| matches!(s, State::SeqCustomPending(_) | State::SeqCustomActive(_))) {
        v.push("seq_custom_state".into());
    }
    if let Some(c) = l.chords_v2.as_ref() {
        if !c.is_idle_chv2() {
            v.push("chords_v2_not_idle".into());
        }
        if !c.accepts_chords_chv2() {
            v.push("chords_v2_cooldown".into());
        }
    }
    v.push(format!("states={}", l.states.len()));
    v.join(",")
}

/// Physically consistent: press only up keys, release/repeat only down keys, wheel keys only as
/// Tap events, everything released at the end, TCP virtual key ops balanced.
pub fn history_consistent(ops: &[Op]) -> bool {
    let mut down: Vec<u16> = vec![];
    let mut vdown: Vec<&str> = vec![];
    for op in ops {
        match op {
            Op::Press(c) => {
                if down.contains(c) || crate::gen::is_wheel_code(*c) {
                    return false;
                }
                down.push(*c)
            }
            Op::Release(c) => {
                if !down.contains(c) {
                    return false;
                }
                down.retain(|x| x != c)
            }
            Op::Repeat(c) => {
                if !down.contains(c) || crate::gen::is_mouse_btn_code(*c) {
                    return false;
                }
            }
            Op::Vkey(n, 0) => vdown.push(n),
            Op::Vkey(n, 1) => vdown.retain(|x| x != n),
            Op::Vkey(_, 3) => return false,
            _ => {}
        }
    }
    down.is_empty() && vdown.is_empty()
}

/// Non-latching use of virtual keys: press/release/toggle only inside the balanced template
/// `(multi (on-press press-vkey X) (on-release release-vkey X))`; tap, hold-for-duration and on-idle
/// tap are fine anywhere.
pub fn config_is_non_latching(cfg: &str) -> bool {
    let Some(forms) = parse_top(cfg) else { return false };
    fn ok(n: &SX, parent_balanced: bool) -> bool {
        match n {
            SX::A(_) => true,
            SX::L(v) => {
                let head = v.first().and_then(|h| h.atom()).unwrap_or("");
                match head {
                    "on-press" | "on-release" | "on↓" | "on↑" => {
                        let act = v.get(1).and_then(|x| x.atom()).unwrap_or("");
                        if act.starts_with("tap-v") {
                            true
                        } else {
                            parent_balanced
                        }
                    }
                    "on-press-fakekey" | "on-release-fakekey" | "on↓fakekey" | "on↑fakekey" => v.get(2).and_then(|x| x.atom()) == Some("tap"),
                    "on-idle" | "on-idle-fakekey" => v.iter().any(|x| x.atom().map(|a| a == "tap" || a.starts_with("tap-v")).unwrap_or(false)),
                    "multi" => {
                        // the balanced template: exactly (multi (on-press press-vkey X) (on-release release-vkey X))
                        let balanced = v.len() == 3
                            && v[1].list().map(|a| a.len() == 3 && a[0].atom() == Some("on-press") && a[1].atom().map(|x| x.starts_with("press-v")).unwrap_or(false)).unwrap_or(false)
                            && v[2].list().map(|a| a.len() == 3 && a[0].atom() == Some("on-release") && a[1].atom().map(|x| x.starts_with("release-v")).unwrap_or(false)).unwrap_or(false)
                            && v[1].list().and_then(|a| a[2].atom()) == v[2].list().and_then(|a| a[2].atom());
                        v[1..].iter().all(|x| ok(x, balanced))
                    }
                    _ => v.iter().all(|x| ok(x, false)),
                }
            }
        }
    }
    forms.iter().all(|f| ok(f, false))
}
