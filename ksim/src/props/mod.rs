//! Property checks: each property = generator (seed -> Case) + checker (Case -> verdict), where the
//! checker is a pure function of the case (so a replay file replays without regenerating).

use crate::ops::{Case, Violation};
use std::collections::BTreeMap;

pub mod c01;
pub mod c02;
pub mod c03;
pub mod c04;
pub mod c05;
pub mod c06;
pub mod c07;
pub mod c08;
pub mod c09;
pub mod c10;
pub mod c12;
pub mod c13;
pub mod c14;
pub mod c15;
pub mod c16;
pub mod c17;
pub mod c18;
pub mod c19;
pub mod c20;
pub mod common;

#[derive(Clone, Copy, Debug, PartialEq)]
pub enum Tier {
    Quick,
    Thorough,
}
impl Tier {
    pub fn name(&self) -> &'static str {
        match self {
            Tier::Quick => "quick",
            Tier::Thorough => "thorough",
        }
    }
}

#[derive(Clone, Debug)]
pub enum Verdict {
    Pass,
    /// the case is outside the property's precondition (counted, reason recorded)
    Skip(String),
    Fail(Violation),
}

#[derive(Clone, Debug, Default)]
pub struct RunOut {
    pub verdict: Option<Verdict>,
    /// signature of the explored behaviour (for distinct counting)
    pub sig: u64,
    /// non-trivial by the property's stated rule
    pub nontrivial: bool,
    pub sim_ms: u64,
    /// probes / fault kinds that actually fired in this run
    pub counters: BTreeMap<String, u64>,
    /// human-readable rendering of the case + trace (only when asked for)
    pub sample: Option<serde_json::Value>,
}

impl RunOut {
    pub fn pass() -> RunOut {
        RunOut { verdict: Some(Verdict::Pass), ..Default::default() }
    }
    pub fn skip(why: &str) -> RunOut {
        RunOut { verdict: Some(Verdict::Skip(why.to_string())), ..Default::default() }
    }
    pub fn fail(rule: &str, detail: String, tags: Vec<String>) -> RunOut {
        RunOut { verdict: Some(Verdict::Fail(Violation { rule: rule.to_string(), detail, tags })), ..Default::default() }
    }
    pub fn count(&mut self, k: &str, n: u64) {
        if n > 0 {
            *self.counters.entry(k.to_string()).or_insert(0) += n;
        }
    }
    pub fn set_fail(&mut self, rule: &str, detail: String, tags: Vec<String>) {
        if !matches!(self.verdict, Some(Verdict::Fail(_))) {
            self.verdict = Some(Verdict::Fail(Violation { rule: rule.to_string(), detail, tags }));
        }
    }
    pub fn failed(&self) -> bool {
        matches!(self.verdict, Some(Verdict::Fail(_)))
    }
}

pub trait Prop: Sync {
    fn id(&self) -> &'static str;
    /// evidence level
    fn level(&self) -> &'static str {
        "exploration"
    }
    /// how cases are generated and what makes one non-trivial / distinct
    fn rule_text(&self) -> String;
    fn runs(&self, tier: Tier) -> u64;
    fn gen(&self, seed: u64, tier: Tier) -> Case;
    fn check(&self, case: &Case, want_sample: bool) -> RunOut;
    fn assumptions(&self) -> Vec<String> {
        vec![]
    }
    /// components that ran real code vs a stub
    fn components(&self) -> serde_json::Value {
        serde_json::json!({
            "real": ["kanata-parser (config text -> layout)", "kanata-keyberon Layout state machine", "Kanata::handle_input_event / tick_ms / can_block_update_idle_waiting (src/kanata/*.rs)", "zippychord, sequences, overrides, key-repeat, dynamic macros"],
            "stub": ["KbdOut = the project's own simulated_output recorder (no uinput)", "input device (events are fed through Kanata::handle_input_event)", "TCP socket (the op calls the same functions the socket handler calls)", "std::thread::sleep / instant::Instant -> virtual clock (hook H1)", "processing-loop thread: replaced by the stepper's loop protocol, except in the executor-B populations (C07 'loop', C18 'tcp-race') where Kanata::start_processing_loop itself runs as a real thread under the seeded scheduler"]
        })
    }
}

pub fn all() -> Vec<Box<dyn Prop>> {
    vec![Box::new(c01::C01), Box::new(c02::C02), Box::new(c03::C03), Box::new(c04::C04), Box::new(c05::C05), Box::new(c06::C06), Box::new(c07::C07), Box::new(c08::C08), Box::new(c09::C09), Box::new(c10::C10), Box::new(c12::C12), Box::new(c13::C13), Box::new(c14::C14), Box::new(c15::C15), Box::new(c16::C16), Box::new(c17::C17), Box::new(c18::C18), Box::new(c19::C19), Box::new(c20::C20)]
}

pub fn by_id(id: &str) -> Option<Box<dyn Prop>> {
    all().into_iter().find(|p| p.id() == id)
}
