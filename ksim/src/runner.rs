//! Orchestration: parent spawns worker processes, aggregates, minimises, writes replay files and
//! evidence, prints VIOLATION / KNOWN-FINDING lines and decides the exit code.

use crate::gen::splitmix;
use crate::ops::*;
use crate::props::*;
use serde::{Deserialize, Serialize};
use std::collections::{BTreeMap, HashSet};
use std::io::{BufRead, BufReader, Read, Write};
use std::process::{Command, Stdio};
use std::sync::atomic::{AtomicU64, Ordering};
use std::time::{Duration, Instant};

pub const DEFAULT_SEED: u64 = 0x6b616e617461;
pub fn verif_dir() -> String {
    std::env::var("VERIF_DIR").unwrap_or_else(|_| "/verif".to_string())
}

// ---------------------------------------------------------------------------------------------
// panic capture
// ---------------------------------------------------------------------------------------------

thread_local! {
    static LAST_PANIC: std::cell::RefCell<Option<(String, String)>> = const { std::cell::RefCell::new(None) };
}
static GLOBAL_PANICS: std::sync::Mutex<Vec<(String, String)>> = std::sync::Mutex::new(Vec::new());

pub fn install_panic_hook() {
    std::panic::set_hook(Box::new(|info| {
        let loc = info.location().map(|l| format!("{}:{}", l.file(), l.line())).unwrap_or_else(|| "?".into());
        let msg = if let Some(s) = info.payload().downcast_ref::<&str>() {
            s.to_string()
        } else if let Some(s) = info.payload().downcast_ref::<String>() {
            s.clone()
        } else {
            "<non-string payload>".to_string()
        };
        LAST_PANIC.with(|p| *p.borrow_mut() = Some((loc.clone(), msg.clone())));
        if let Ok(mut g) = GLOBAL_PANICS.lock() {
            g.push((loc, msg));
        }
    }));
}

pub fn take_global_panics() -> Vec<(String, String)> {
    GLOBAL_PANICS.lock().map(|mut g| std::mem::take(&mut *g)).unwrap_or_default()
}

fn shorten_loc(loc: &str) -> String {
    // strip /repo/ prefix and registry paths for stability
    let l = loc.strip_prefix("/repo/").unwrap_or(loc);
    if let Some(p) = l.find(".cargo/registry/src/") {
        let rest = &l[p + ".cargo/registry/src/".len()..];
        return rest.split_once('/').map(|x| x.1.to_string()).unwrap_or(rest.to_string());
    }
    l.to_string()
}

fn normalise_msg(m: &str) -> String {
    // keep the first line, cap length, and strip numbers that vary with the input
    let first = m.lines().next().unwrap_or("");
    let mut out = String::new();
    let mut prev_digit = false;
    for c in first.chars().take(160) {
        if c.is_ascii_digit() {
            if !prev_digit {
                out.push('N');
            }
            prev_digit = true;
        } else {
            prev_digit = false;
            out.push(c);
        }
    }
    out
}

pub fn panic_rule(loc: &str, msg: &str) -> String {
    format!("panic@{}: {}", shorten_loc(loc), normalise_msg(msg))
}

/// Run a property check with panic capture.
pub fn checked(p: &dyn Prop, case: &Case, want_sample: bool) -> RunOut {
    LAST_PANIC.with(|p| *p.borrow_mut() = None);
    let _ = take_global_panics();
    let r = std::panic::catch_unwind(std::panic::AssertUnwindSafe(|| p.check(case, want_sample)));
    match r {
        Ok(o) => o,
        Err(_) => {
            let (loc, msg) = LAST_PANIC.with(|p| p.borrow_mut().take()).or_else(|| take_global_panics().into_iter().next()).unwrap_or(("?".into(), "?".into()));
            let mut o = RunOut::fail(&panic_rule(&loc, &msg), format!("panic at {loc}: {msg}"), vec!["panic".into()]);
            o.nontrivial = true;
            o
        }
    }
}

// ---------------------------------------------------------------------------------------------
// known findings
// ---------------------------------------------------------------------------------------------

#[derive(Clone, Debug, Serialize, Deserialize, Default)]
pub struct KnownFinding {
    pub property: String,
    /// exact rule string (for panics: "panic@file:line: message")
    pub rule: String,
    /// all of these tags must be present on the violation (discriminating features)
    #[serde(default)]
    pub requires_tags: Vec<String>,
    pub what: String,
}

#[derive(Clone, Debug, Serialize, Deserialize, Default)]
pub struct KnownFindings {
    #[serde(default)]
    pub findings: Vec<KnownFinding>,
    #[serde(default)]
    pub fixed: Vec<String>,
}

pub fn load_known() -> KnownFindings {
    let p = format!("{}/known_findings.json", verif_dir());
    match std::fs::read_to_string(&p) {
        Ok(s) => serde_json::from_str(&s).unwrap_or_else(|e| {
            eprintln!("HARNESS-ERROR: cannot parse {p}: {e}");
            std::process::exit(2);
        }),
        Err(_) => KnownFindings::default(),
    }
}

pub fn known_key(k: &KnownFinding) -> String {
    format!("{}|{}|{}", k.property, k.rule, k.requires_tags.join(","))
}

pub fn match_known<'a>(k: &'a KnownFindings, prop: &str, v: &Violation) -> Option<&'a KnownFinding> {
    k.findings.iter().find(|f| {
        (f.property == prop || (f.rule.starts_with("panic@") && v.rule.starts_with("panic@")))
            && f.rule == v.rule
            && f.requires_tags.iter().all(|t| v.tags.contains(t))
    })
}

// ---------------------------------------------------------------------------------------------
// worker
// ---------------------------------------------------------------------------------------------

#[derive(Clone, Debug, Serialize, Deserialize, Default)]
pub struct WorkerReport {
    pub runs: u64,
    pub passed: u64,
    pub skipped: BTreeMap<String, u64>,
    pub sim_ms: u64,
    pub counters: BTreeMap<String, u64>,
    pub sigs: Vec<u64>,
    pub samples: Vec<serde_json::Value>,
    /// first case of each distinct unknown violation rule
    pub violations: Vec<(Violation, Case)>,
    /// known findings hit: rule -> count
    pub known_hits: BTreeMap<String, u64>,
    /// unknown violations by rule + tags (triage aid)
    #[serde(default)]
    pub viol_classes: BTreeMap<String, u64>,
    pub stopped_early: bool,
    pub wall_s: f64,
}

static CUR_IDX: AtomicU64 = AtomicU64::new(u64::MAX);
static CUR_START_MS: AtomicU64 = AtomicU64::new(0);

fn set_rlimit_as(bytes: u64) {
    unsafe {
        let lim = libc::rlimit { rlim_cur: bytes, rlim_max: bytes };
        libc::setrlimit(libc::RLIMIT_AS, &lim);
    }
}

pub struct WorkerArgs {
    pub prop: String,
    pub seed: u64,
    pub tier: Tier,
    pub start: u64,
    pub stride: u64,
    pub count: u64,
    pub budget_s: f64,
    pub hunt: bool,
    pub hang_limit_s: f64,
}

pub fn run_seed(seed: u64, i: u64) -> u64 {
    splitmix(seed, i)
}

pub fn worker(a: &WorkerArgs) -> i32 {
    install_panic_hook();
    set_rlimit_as(6 << 30);
    let p = match by_id(&a.prop) {
        Some(p) => p,
        None => {
            eprintln!("unknown property {}", a.prop);
            return 2;
        }
    };
    let known = load_known();
    let t0 = Instant::now();
    // hang watchdog
    let hang_limit_ms = (a.hang_limit_s * 1000.0) as u64;
    std::thread::spawn(move || loop {
        std::thread::sleep(Duration::from_millis(200));
        let idx = CUR_IDX.load(Ordering::SeqCst);
        if idx == u64::MAX {
            continue;
        }
        let st = CUR_START_MS.load(Ordering::SeqCst);
        let now = t0.elapsed().as_millis() as u64;
        if now.saturating_sub(st) > hang_limit_ms {
            let out = std::io::stdout();
            let mut o = out.lock();
            let _ = writeln!(o, "H {idx}");
            let _ = o.flush();
            std::process::exit(3);
        }
    });
    let mut rep = WorkerReport::default();
    let mut sigs: HashSet<u64> = HashSet::new();
    let mut seen_rules: HashSet<String> = HashSet::new();
    let out = std::io::stdout();
    let mut i = a.start;
    let mut n_done = 0u64;
    while i < a.count {
        if t0.elapsed().as_secs_f64() > a.budget_s {
            rep.stopped_early = true;
            break;
        }
        if a.hunt {
            let mut o = out.lock();
            let _ = writeln!(o, "B {i}");
            let _ = o.flush();
        } else if n_done % 64 == 0 {
            let mut o = out.lock();
            let _ = writeln!(o, "P {i}");
            let _ = o.flush();
        }
        CUR_START_MS.store(t0.elapsed().as_millis() as u64, Ordering::SeqCst);
        CUR_IDX.store(i, Ordering::SeqCst);
        let rs = run_seed(a.seed, i);
        let case = p.gen(rs, a.tier);
        let want_sample = rep.samples.len() < 2 && n_done % 97 == 3;
        let o = checked(p.as_ref(), &case, want_sample);
        CUR_IDX.store(u64::MAX, Ordering::SeqCst);
        rep.runs += 1;
        rep.sim_ms += o.sim_ms;
        for (k, v) in &o.counters {
            *rep.counters.entry(k.clone()).or_insert(0) += v;
        }
        match &o.verdict {
            Some(Verdict::Pass) | None => {
                rep.passed += 1;
                if o.nontrivial {
                    sigs.insert(o.sig);
                }
                if let Some(s) = o.sample {
                    rep.samples.push(s);
                }
            }
            Some(Verdict::Skip(why)) => {
                *rep.skipped.entry(why.clone()).or_insert(0) += 1;
            }
            Some(Verdict::Fail(v)) => {
                if o.nontrivial {
                    sigs.insert(o.sig);
                }
                if let Some(k) = match_known(&known, &a.prop, v) {
                    *rep.known_hits.entry(known_key(k)).or_insert(0) += 1;
                } else {
                    if let Ok(d) = std::env::var("KSIM_DUMP_FAILS") {
                        let _ = std::fs::create_dir_all(&d);
                        let _ = std::fs::write(format!("{d}/{}-{:016x}.json", v.rule.replace([':', ' ', '/'], "_").chars().take(40).collect::<String>(), case.seed), serde_json::to_string(&case).unwrap());
                    }
                    *rep.viol_classes.entry(format!("{} {:?}", v.rule, v.tags)).or_insert(0) += 1;
                    let smaller = rep.violations.iter().position(|(v2, c2)| v2.rule == v.rule && c2.ops.len() + c2.cfg.len() / 8 > case.ops.len() + case.cfg.len() / 8);
                    if let Some(pos) = smaller {
                        // prefer the smallest failing case of each class as the starting point
                        rep.violations[pos] = (v.clone(), case.clone());
                    } else if seen_rules.insert(v.rule.clone()) && rep.violations.len() < 4 {
                        rep.violations.push((v.clone(), case.clone()));
                    }
                }
            }
        }
        n_done += 1;
        i += a.stride;
    }
    rep.sigs = sigs.into_iter().collect();
    rep.wall_s = t0.elapsed().as_secs_f64();
    let mut o = out.lock();
    let _ = writeln!(o, "R {}", serde_json::to_string(&rep).unwrap());
    let _ = o.flush();
    0
}

// ---------------------------------------------------------------------------------------------
// isolated single-case check (fresh process)
// ---------------------------------------------------------------------------------------------

#[derive(Clone, Debug, Serialize, Deserialize)]
pub struct CaseResult {
    pub status: String, // pass | skip | fail
    pub violation: Option<Violation>,
    pub skip: Option<String>,
}

pub fn check_case_main(prop: &str) -> i32 {
    install_panic_hook();
    set_rlimit_as(6 << 30);
    let p = match by_id(prop) {
        Some(p) => p,
        None => return 2,
    };
    let mut s = String::new();
    std::io::stdin().read_to_string(&mut s).unwrap();
    let case: Case = match serde_json::from_str(&s) {
        Ok(c) => c,
        Err(e) => {
            eprintln!("bad case json: {e}");
            return 2;
        }
    };
    let o = checked(p.as_ref(), &case, false);
    let r = match o.verdict {
        Some(Verdict::Fail(v)) => CaseResult { status: "fail".into(), violation: Some(v), skip: None },
        Some(Verdict::Skip(w)) => CaseResult { status: "skip".into(), violation: None, skip: Some(w) },
        _ => CaseResult { status: "pass".into(), violation: None, skip: None },
    };
    println!("{}", serde_json::to_string(&r).unwrap());
    0
}

/// Run one case in a fresh process. Returns the violation if any ("abort"/"hang" rules for crashes).
pub fn check_isolated(prop: &str, case: &Case, timeout_s: f64) -> Option<Violation> {
    let exe = std::env::current_exe().unwrap();
    let mut child = Command::new(exe)
        .args(["check-case", prop])
        .stdin(Stdio::piped())
        .stdout(Stdio::piped())
        .stderr(Stdio::null())
        .spawn()
        .expect("spawn check-case");
    {
        let mut stdin = child.stdin.take().unwrap();
        let _ = stdin.write_all(serde_json::to_string(case).unwrap().as_bytes());
    }
    let t0 = Instant::now();
    loop {
        match child.try_wait() {
            Ok(Some(st)) => {
                let mut s = String::new();
                let _ = child.stdout.take().unwrap().read_to_string(&mut s);
                if let Some(line) = s.lines().last() {
                    if let Ok(r) = serde_json::from_str::<CaseResult>(line) {
                        return r.violation;
                    }
                }
                return Some(Violation {
                    rule: format!("abort: worker died ({})", exit_desc(&st)),
                    detail: format!("process exit {st:?}"),
                    tags: vec!["abort".into()],
                });
            }
            Ok(None) => {
                if t0.elapsed().as_secs_f64() > timeout_s {
                    let _ = child.kill();
                    let _ = child.wait();
                    return Some(Violation { rule: "hang: step did not complete within the watchdog".into(), detail: format!("no result within {timeout_s}s"), tags: vec!["hang".into()] });
                }
                std::thread::sleep(Duration::from_millis(2));
            }
            Err(_) => return None,
        }
    }
}

fn exit_desc(st: &std::process::ExitStatus) -> String {
    use std::os::unix::process::ExitStatusExt;
    if let Some(sig) = st.signal() {
        format!("signal {sig}")
    } else {
        format!("exit code {}", st.code().unwrap_or(-1))
    }
}

// ---------------------------------------------------------------------------------------------
// minimiser
// ---------------------------------------------------------------------------------------------

pub struct Minimiser<'a> {
    pub prop: &'a str,
    pub rule: String,
    pub deadline: Instant,
    pub attempts: u64,
    pub max_attempts: u64,
}

impl<'a> Minimiser<'a> {
    fn still_fails(&mut self, c: &Case) -> bool {
        if Instant::now() > self.deadline || self.attempts >= self.max_attempts {
            return false;
        }
        self.attempts += 1;
        // while shrinking a hang, a candidate that needs more than a few seconds alone in a fresh
        // process (ordinary runs take milliseconds) counts as still hanging; the final result is
        // confirmed with the long timeout afterwards
        let to = if self.rule.starts_with("hang:") { 4.0 } else { 30.0 };
        match check_isolated(self.prop, c, to) {
            Some(v) => v.rule == self.rule,
            None => false,
        }
    }

    pub fn minimise(&mut self, case: &Case) -> Case {
        let mut best = case.clone();
        loop {
            let before = (best.ops.len(), best.cfg.len(), total_gap(&best.ops));
            if best.param("min_ops") != Some("0") {
                best = self.min_ops(best);
            }
            if best.param("min_gaps") != Some("0") {
                best = self.min_gaps(best);
            }
            if best.param("min_cfg") != Some("0") {
                best = self.min_cfg(best);
            }
            if best.param("min_files") != Some("0") {
                best = self.min_files(best);
            }
            best = self.min_tape(best);
            let after = (best.ops.len(), best.cfg.len(), total_gap(&best.ops));
            if after == before || Instant::now() > self.deadline || self.attempts >= self.max_attempts {
                break;
            }
        }
        best
    }

    fn min_ops(&mut self, mut c: Case) -> Case {
        let mut chunk = (c.ops.len() / 2).max(1);
        while chunk >= 1 && !c.ops.is_empty() {
            let mut i = 0;
            let mut progressed = false;
            while i < c.ops.len() {
                let mut cand = c.clone();
                let end = (i + chunk).min(cand.ops.len());
                cand.ops.drain(i..end);
                if self.still_fails(&cand) {
                    c = cand;
                    progressed = true;
                } else {
                    i += chunk;
                }
            }
            if chunk == 1 && !progressed {
                break;
            }
            if !progressed {
                chunk /= 2;
            }
        }
        c
    }

    fn min_gaps(&mut self, mut c: Case) -> Case {
        for i in 0..c.ops.len() {
            let n = match c.ops[i] {
                Op::Gap(n) => n,
                Op::ClockJump(n) => n,
                _ => continue,
            };
            let is_jump = matches!(c.ops[i], Op::ClockJump(_));
            if is_jump {
                let mut cand = c.clone();
                cand.ops[i] = Op::Gap(n);
                if self.still_fails(&cand) {
                    c = cand;
                }
            }
            for t in [1u32, 2, n / 2, n.saturating_sub(1)] {
                if t >= n || t == 0 {
                    continue;
                }
                let mut cand = c.clone();
                cand.ops[i] = if matches!(cand.ops[i], Op::ClockJump(_)) { Op::ClockJump(t) } else { Op::Gap(t) };
                if self.still_fails(&cand) {
                    c = cand;
                    break;
                }
            }
        }
        c
    }

    fn min_files(&mut self, mut c: Case) -> Case {
        let mut i = 0;
        while i < c.files.len() {
            let mut cand = c.clone();
            cand.files.remove(i);
            if self.still_fails(&cand) {
                c = cand;
            } else {
                // shrink content by lines
                let lines: Vec<String> = c.files[i].1.lines().map(|s| s.to_string()).collect();
                let mut keep = lines.clone();
                let mut j = 0;
                while j < keep.len() && keep.len() > 1 {
                    let mut k2 = keep.clone();
                    k2.remove(j);
                    let mut cand = c.clone();
                    cand.files[i].1 = k2.join("\n") + "\n";
                    if self.still_fails(&cand) {
                        keep = k2;
                    } else {
                        j += 1;
                    }
                }
                if keep.len() != lines.len() {
                    c.files[i].1 = keep.join("\n") + "\n";
                }
                i += 1;
            }
        }
        c
    }

    fn min_tape(&mut self, mut c: Case) -> Case {
        let Some(tape) = c.tape.clone() else { return c };
        // truncate, then zero chunks
        let mut t = tape;
        let mut len = t.len() / 2;
        while len >= 1 {
            let mut cand = c.clone();
            let mut tt = t.clone();
            tt.truncate(t.len().saturating_sub(len));
            cand.tape = Some(tt.clone());
            if self.still_fails(&cand) {
                t = tt;
            } else {
                len /= 2;
            }
            if t.is_empty() {
                break;
            }
        }
        let mut chunk = (t.len() / 2).max(1);
        while chunk >= 1 {
            let mut i = 0;
            while i < t.len() {
                let end = (i + chunk).min(t.len());
                if t[i..end].iter().any(|x| *x != 0) {
                    let mut tt = t.clone();
                    for x in tt[i..end].iter_mut() {
                        *x = 0;
                    }
                    let mut cand = c.clone();
                    cand.tape = Some(tt.clone());
                    if self.still_fails(&cand) {
                        t = tt;
                    }
                }
                i += chunk;
            }
            if chunk == 1 {
                break;
            }
            chunk /= 2;
        }
        c.tape = Some(t);
        c
    }

    fn min_cfg(&mut self, mut c: Case) -> Case {
        use crate::sx::*;
        let Some(mut forms) = parse_top(&c.cfg) else { return c };
        // 1. drop top-level forms
        let mut i = 0;
        while i < forms.len() {
            let h = forms[i].head().unwrap_or("").to_string();
            if h == "defsrc" {
                i += 1;
                continue;
            }
            let mut f2 = forms.clone();
            f2.remove(i);
            let mut cand = c.clone();
            cand.cfg = print_top(&f2);
            if self.still_fails(&cand) {
                forms = f2;
                c = cand;
            } else {
                i += 1;
            }
        }
        // 2. drop defsrc columns (with the matching column of every deflayer)
        if let Some(si) = forms.iter().position(|f| f.head() == Some("defsrc")) {
            let mut col = 1;
            loop {
                let n = forms[si].list().map(|v| v.len()).unwrap_or(0);
                if col >= n || n <= 2 {
                    break;
                }
                let mut f2 = forms.clone();
                if let SX::L(v) = &mut f2[si] {
                    v.remove(col);
                }
                for f in f2.iter_mut() {
                    if f.head() == Some("deflayer") {
                        if let SX::L(v) = f {
                            if v.len() > col + 1 {
                                v.remove(col + 1);
                            }
                        }
                    }
                }
                let mut cand = c.clone();
                cand.cfg = print_top(&f2);
                if self.still_fails(&cand) {
                    forms = f2;
                    c = cand;
                } else {
                    col += 1;
                }
            }
        }
        // 3. simplify sub-expressions: replace a list by XX, by a child, or remove optional children
        let mut changed = true;
        let mut rounds = 0;
        while changed && rounds < 4 {
            changed = false;
            rounds += 1;
            for fi in 0..forms.len() {
                let mut paths: Vec<Vec<usize>> = vec![];
                forms[fi].walk(&mut vec![], &mut |p, n| {
                    if !p.is_empty() && (n.list().is_some() || n.atom().map(|s| s.len() > 2).unwrap_or(false)) {
                        paths.push(p.to_vec());
                    }
                });
                // larger subtrees first
                paths.sort_by_key(|p| std::cmp::Reverse(forms[fi].get(p).map(|n| n.size()).unwrap_or(0)));
                for p in paths {
                    let Some(node) = forms[fi].get(&p).cloned() else { continue };
                    if node.size() <= 1 && node.atom() == Some("XX") {
                        continue;
                    }
                    let mut cands: Vec<SX> = vec![];
                    let head = forms[fi].head().unwrap_or("");
                    let in_layer = head == "deflayer" || head == "deflayermap" || head == "defalias" || head == "defvirtualkeys" || head == "deffakekeys";
                    if node.list().is_some() {
                        if in_layer {
                            cands.push(a("XX"));
                        }
                        if let Some(ch) = node.list() {
                            for x in ch.iter().skip(1) {
                                if x.list().is_some() || in_layer {
                                    cands.push(x.clone());
                                }
                            }
                        }
                    }
                    let mut done = false;
                    for cnd in cands {
                        if cnd == node {
                            continue;
                        }
                        let nf = forms[fi].replace_at(&p, cnd);
                        let mut f2 = forms.clone();
                        f2[fi] = nf;
                        let mut cand = c.clone();
                        cand.cfg = print_top(&f2);
                        if self.still_fails(&cand) {
                            forms = f2;
                            c = cand;
                            changed = true;
                            done = true;
                            break;
                        }
                    }
                    if done {
                        break; // paths are stale; restart this form in the next round
                    }
                    // try removing the node from its parent (for variadic parents)
                    if p.len() >= 1 {
                        let parent_head = forms[fi].get(&p[..p.len() - 1]).and_then(|n| n.head()).unwrap_or("").to_string();
                        if matches!(parent_head.as_str(), "multi" | "macro" | "defcfg" | "defchords" | "defchordsv2" | "defseq" | "defoverrides" | "switch" | "and" | "or" | "defvirtualkeys" | "defalias" | "deflayermap" | "defvar")
                            || parent_head.starts_with("macro")
                        {
                            let step = match parent_head.as_str() {
                                "defcfg" | "defvirtualkeys" | "defalias" | "defseq" | "defoverrides" | "deflayermap" | "defvar" => 2,
                                "switch" => 3,
                                "defchordsv2" => 5,
                                _ => 1,
                            };
                            let last = *p.last().unwrap();
                            let first_item = match parent_head.as_str() {
                                "defchords" => 3,
                                "deflayermap" => 2,
                                _ => 1,
                            };
                            if last >= first_item && (last - first_item) % step == 0 {
                                let mut nf = forms[fi].clone();
                                if let Some(SX::L(v)) = nf.get_mut(&p[..p.len() - 1]) {
                                    if last + step <= v.len() {
                                        v.drain(last..last + step);
                                        let mut f2 = forms.clone();
                                        f2[fi] = nf;
                                        let mut cand = c.clone();
                                        cand.cfg = print_top(&f2);
                                        if self.still_fails(&cand) {
                                            forms = f2;
                                            c = cand;
                                            changed = true;
                                            break;
                                        }
                                    }
                                }
                            }
                        }
                    }
                }
            }
        }
        c
    }
}

fn total_gap(ops: &[Op]) -> u64 {
    ops.iter()
        .map(|o| match o {
            Op::Gap(n) | Op::ClockJump(n) => *n as u64,
            _ => 0,
        })
        .sum()
}

// ---------------------------------------------------------------------------------------------
// parent
// ---------------------------------------------------------------------------------------------

fn repo_state() -> (String, String) {
    let head = Command::new("git").args(["-C", "/repo", "rev-parse", "HEAD"]).output().map(|o| String::from_utf8_lossy(&o.stdout).trim().to_string()).unwrap_or_default();
    let diff = Command::new("git").args(["-C", "/repo", "diff", "HEAD"]).output().map(|o| o.stdout).unwrap_or_default();
    let h = crate::trace::fnv(0, &diff);
    (head, if diff.is_empty() { "clean".into() } else { format!("{h:016x}") })
}

pub struct RunArgs {
    pub prop: String,
    pub tier: Tier,
    pub seed: u64,
    pub jobs: u64,
}

struct WorkerHandle {
    child: std::process::Child,
    rx: std::sync::mpsc::Receiver<String>,
    last_p: u64,
    report: Option<WorkerReport>,
    hang: Option<u64>,
    start: u64,
}

pub fn run_main(a: &RunArgs) -> i32 {
    let p = match by_id(&a.prop) {
        Some(p) => p,
        None => {
            eprintln!("HARNESS-ERROR: unknown property {}", a.prop);
            return 2;
        }
    };
    let t0 = Instant::now();
    println!("VERIF_SEED={} property={} tier={} jobs={}", a.seed, a.prop, a.tier.name(), a.jobs);
    let count = std::env::var("VERIF_RUNS").ok().and_then(|s| s.parse().ok()).unwrap_or_else(|| p.runs(a.tier));
    let budget_s: f64 = std::env::var("VERIF_BUDGET_S").ok().and_then(|s| s.parse().ok()).unwrap_or(match a.tier {
        Tier::Quick => 75.0,
        Tier::Thorough => 1500.0,
    });
    let exe = std::env::current_exe().unwrap();
    let mut workers: Vec<WorkerHandle> = vec![];
    for w in 0..a.jobs {
        let mut child = Command::new(&exe)
            .args([
                "worker",
                &a.prop,
                "--seed",
                &a.seed.to_string(),
                "--tier",
                a.tier.name(),
                "--start",
                &w.to_string(),
                "--stride",
                &a.jobs.to_string(),
                "--count",
                &count.to_string(),
                "--budget",
                &budget_s.to_string(),
            ])
            .stdout(Stdio::piped())
            .stderr(Stdio::null())
            .spawn()
            .expect("spawn worker");
        let stdout = child.stdout.take().unwrap();
        let (tx, rx) = std::sync::mpsc::channel();
        std::thread::spawn(move || {
            let r = BufReader::with_capacity(1 << 20, stdout);
            for line in r.lines() {
                match line {
                    Ok(l) => {
                        if tx.send(l).is_err() {
                            break;
                        }
                    }
                    Err(_) => break,
                }
            }
        });
        workers.push(WorkerHandle { child, rx, last_p: w, report: None, hang: None, start: w });
    }
    // collect
    let mut crashed: Vec<(u64, u64, String)> = vec![]; // (start, last_p, desc)
    for w in workers.iter_mut() {
        loop {
            match w.rx.recv() {
                Ok(line) => {
                    if let Some(r) = line.strip_prefix("P ") {
                        w.last_p = r.trim().parse().unwrap_or(w.last_p);
                    } else if let Some(r) = line.strip_prefix("H ") {
                        w.hang = r.trim().parse().ok();
                    } else if let Some(r) = line.strip_prefix("R ") {
                        match serde_json::from_str::<WorkerReport>(r) {
                            Ok(rep) => w.report = Some(rep),
                            Err(e) => eprintln!("HARNESS-ERROR: bad worker report: {e}"),
                        }
                    }
                }
                Err(_) => break,
            }
        }
        let st = w.child.wait().expect("wait worker");
        if w.report.is_none() && w.hang.is_none() {
            crashed.push((w.start, w.last_p, exit_desc(&st)));
        }
    }
    let known = load_known();
    let mut total = WorkerReport::default();
    let mut sigs: HashSet<u64> = HashSet::new();
    let mut violations: Vec<(Violation, Case)> = vec![];
    for w in &workers {
        if let Some(r) = &w.report {
            total.runs += r.runs;
            total.passed += r.passed;
            total.sim_ms += r.sim_ms;
            total.stopped_early |= r.stopped_early;
            for (k, v) in &r.skipped {
                *total.skipped.entry(k.clone()).or_insert(0) += v;
            }
            for (k, v) in &r.counters {
                *total.counters.entry(k.clone()).or_insert(0) += v;
            }
            for (k, v) in &r.known_hits {
                *total.known_hits.entry(k.clone()).or_insert(0) += v;
            }
            for (k, v) in &r.viol_classes {
                *total.viol_classes.entry(k.clone()).or_insert(0) += v;
            }
            sigs.extend(r.sigs.iter().copied());
            if total.samples.len() < 4 {
                total.samples.extend(r.samples.iter().cloned());
            }
            for (v, c) in &r.violations {
                if let Some(pos) = violations.iter().position(|(v2, _)| v2.rule == v.rule) {
                    let c2 = &violations[pos].1;
                    if c2.ops.len() + c2.cfg.len() / 8 > c.ops.len() + c.cfg.len() / 8 {
                        violations[pos] = (v.clone(), c.clone());
                    }
                } else {
                    violations.push((v.clone(), c.clone()));
                }
            }
        }
        if let Some(i) = w.hang {
            let case = p.gen(run_seed(a.seed, i), a.tier);
            let v = Violation { rule: "hang: step did not complete within the watchdog".into(), detail: format!("run index {i} exceeded the per-run wall-clock watchdog"), tags: vec!["hang".into()] };
            if !violations.iter().any(|(v2, _)| v2.rule == v.rule) {
                violations.push((v, case));
            }
        }
    }
    // crash hunting: re-run the window of a dead worker one run at a time in a fresh process
    let mut harness_error = false;
    for (start, last_p, desc) in crashed {
        eprintln!("worker (start {start}) died with {desc} after progress mark {last_p}; hunting");
        match hunt_crash(&exe, a, last_p, a.jobs, count) {
            Some(i) => {
                let case = p.gen(run_seed(a.seed, i), a.tier);
                let v = check_isolated(&a.prop, &case, 60.0).unwrap_or(Violation { rule: format!("abort: worker died ({desc})"), detail: format!("run index {i}"), tags: vec!["abort".into()] });
                if let Some(k) = match_known(&known, &a.prop, &v) {
                    *total.known_hits.entry(known_key(k)).or_insert(0) += 1;
                } else if !violations.iter().any(|(v2, _)| v2.rule == v.rule) {
                    violations.push((v, case));
                }
            }
            None => {
                eprintln!("HARNESS-ERROR: worker died ({desc}) but the crash could not be attributed to a run");
                harness_error = true;
            }
        }
    }
    for (k, n) in &total.viol_classes {
        println!("violation-class: {n:6} x {k}");
    }
    // known findings
    let mut printed: HashSet<String> = HashSet::new();
    for (key, n) in &total.known_hits {
        if let Some(k) = known.findings.iter().find(|f| &known_key(f) == key) {
            if printed.insert(key.clone()) {
                println!("KNOWN-FINDING: property={} {} [rule: {} tags: {:?}] (hit {} times in this run)", k.property, k.what, k.rule, k.requires_tags, n);
            }
        }
    }
    // violations: minimise, write replay, verify
    let (head, dirty) = repo_state();
    let mut n_viol = 0;
    let mut viol_lines: Vec<String> = vec![];
    let min_budget = match a.tier {
        Tier::Quick => 45.0,
        Tier::Thorough => 120.0,
    };
    for (idx, (v, case)) in violations.iter().enumerate() {
        if idx >= 3 {
            println!("(further distinct violation suppressed: {})", v.rule);
            continue;
        }
        // confirm in a fresh process first
        let iso_to = if v.rule.starts_with("hang:") { 20.0 } else { 60.0 };
        let confirmed = check_isolated(&a.prop, case, iso_to);
        let (v, case) = match confirmed {
            Some(v2) if v2.rule == v.rule => (v2, case.clone()),
            other => {
                if v.rule.starts_with("hang:") {
                    // a step that exceeded the wall-clock watchdog in the batch but completes on its
                    // own is a slow step on a loaded machine, not a hang and not a harness fault
                    println!("NOTE: a run exceeded the per-run watchdog under load but completes in a fresh process; not a hang");
                    continue;
                }
                eprintln!("HARNESS-ERROR: violation '{}' did not reproduce in a fresh process (got {:?})", v.rule, other.map(|x| x.rule));
                harness_error = true;
                continue;
            }
        };
        let mut m = Minimiser { prop: &a.prop, rule: v.rule.clone(), deadline: Instant::now() + Duration::from_secs_f64(min_budget), attempts: 0, max_attempts: 3000 };
        let small = m.minimise(&case);
        let final_v = check_isolated(&a.prop, &small, iso_to);
        let (small, fv, minimised) = match final_v {
            Some(fv) if fv.rule == v.rule => (small, fv, true),
            _ => (case.clone(), v.clone(), false),
        };
        let dir = format!("{}/replays/{}", verif_dir(), a.prop);
        let _ = std::fs::create_dir_all(&dir);
        let slug: String = fv.rule.chars().map(|c| if c.is_ascii_alphanumeric() { c } else { '_' }).take(60).collect();
        let path = format!("{dir}/{slug}-{:016x}.json", small.seed);
        let rf = ReplayFile {
            property: a.prop.clone(),
            violation: fv.clone(),
            case: small.clone(),
            repo_head: head.clone(),
            repo_dirty_hash: dirty.clone(),
            minimised,
            note: format!("minimised with {} attempts; ops: {}", m.attempts, ops_short(&small.ops)),
        };
        std::fs::write(&path, serde_json::to_string_pretty(&rf).unwrap()).expect("write replay");
        println!("violation: {} :: {}", fv.rule, fv.detail.lines().next().unwrap_or(""));
        println!("  config:\n{}", small.cfg.lines().map(|l| format!("    {l}")).collect::<Vec<_>>().join("\n"));
        println!("  ops: {}", ops_short(&small.ops));
        viol_lines.push(format!("VIOLATION property={} replay={}", a.prop, path));
        n_viol += 1;
    }
    // evidence
    let wall = t0.elapsed().as_secs_f64();
    let runs_per_hour = if wall > 0.0 { total.runs as f64 / wall * 3600.0 } else { 0.0 };
    let mut zero_probes: Vec<String> = vec![];
    for (k, v) in &total.counters {
        if *v == 0 {
            zero_probes.push(k.clone());
        }
    }
    let ev = serde_json::json!({
        "property_id": a.prop,
        "tier": a.tier.name(),
        "seed": a.seed,
        "level": p.level(),
        "coverage": {
            "evaluations": total.runs,
            "distinct_nontrivial": sigs.len(),
            "rule": p.rule_text(),
            "samples": if total.samples.is_empty() { vec![serde_json::json!("no sample captured (all runs skipped?)")] } else { total.samples.clone() },
            "passed": total.passed,
            "skipped": total.skipped,
            "simulated_ms": total.sim_ms,
            "runs_per_hour": runs_per_hour as u64,
            "seeds_per_hour": runs_per_hour as u64,
            "simulated_hours_covered": (total.sim_ms as f64) / 3.6e6,
            "fired": total.counters,
            "known_findings_hit": total.known_hits,
            "stopped_early_by_wall_clock_cap": total.stopped_early,
            "planned_runs": count,
            "workers": a.jobs,
            "components": p.components(),
            "repo_head": head,
            "repo_dirty": dirty,
        },
        "assumptions": p.assumptions(),
        "wall_s": wall,
        "violations": n_viol,
    });
    let _ = std::fs::create_dir_all(format!("{}/evidence", verif_dir()));
    std::fs::write(format!("{}/evidence/{}.json", verif_dir(), a.prop), serde_json::to_string_pretty(&ev).unwrap()).expect("write evidence");
    println!(
        "property={} runs={} passed={} skipped={} distinct_nontrivial={} sim_ms={} wall_s={:.1} known_hits={} violations={}",
        a.prop,
        total.runs,
        total.passed,
        total.skipped.values().sum::<u64>(),
        sigs.len(),
        total.sim_ms,
        wall,
        total.known_hits.values().sum::<u64>(),
        n_viol
    );
    for (k, v) in &total.counters {
        if *v == 0 {
            println!("warning: probe '{k}' stayed at zero");
        }
    }
    for l in &viol_lines {
        println!("{l}");
    }
    if n_viol > 0 {
        return 1;
    }
    if harness_error || total.runs == 0 {
        if total.runs == 0 {
            eprintln!("HARNESS-ERROR: no runs executed");
        }
        return 2;
    }
    0
}

fn hunt_crash(exe: &std::path::Path, a: &RunArgs, from: u64, stride: u64, count: u64) -> Option<u64> {
    let to = (from + 64 * stride + 1).min(count);
    let mut child = Command::new(exe)
        .args([
            "worker",
            &a.prop,
            "--seed",
            &a.seed.to_string(),
            "--tier",
            a.tier.name(),
            "--start",
            &from.to_string(),
            "--stride",
            &stride.to_string(),
            "--count",
            &to.to_string(),
            "--budget",
            "600",
            "--hunt",
        ])
        .stdout(Stdio::piped())
        .stderr(Stdio::null())
        .spawn()
        .ok()?;
    let stdout = child.stdout.take().unwrap();
    let mut last_b: Option<u64> = None;
    let mut finished = false;
    for line in BufReader::new(stdout).lines().map_while(Result::ok) {
        if let Some(r) = line.strip_prefix("B ") {
            last_b = r.trim().parse().ok();
        } else if line.starts_with("R ") {
            finished = true;
        } else if let Some(r) = line.strip_prefix("H ") {
            last_b = r.trim().parse().ok();
        }
    }
    let _ = child.wait();
    if finished {
        None
    } else {
        last_b
    }
}

// ---------------------------------------------------------------------------------------------
// replay
// ---------------------------------------------------------------------------------------------

pub fn replay_main(path: &str) -> i32 {
    let s = match std::fs::read_to_string(path) {
        Ok(s) => s,
        Err(e) => {
            eprintln!("HARNESS-ERROR: cannot read {path}: {e}");
            return 2;
        }
    };
    let rf: ReplayFile = match serde_json::from_str(&s) {
        Ok(r) => r,
        Err(e) => {
            eprintln!("HARNESS-ERROR: bad replay file: {e}");
            return 2;
        }
    };
    println!("replaying {} (expected: {})", path, rf.violation.rule);
    println!("ops: {}", ops_short(&rf.case.ops));
    let to = if rf.violation.rule.starts_with("hang:") { 30.0 } else { 120.0 };
    match check_isolated(&rf.property, &rf.case, to) {
        Some(v) => {
            println!("reproduced: {} :: {}", v.rule, v.detail);
            if v.rule == rf.violation.rule {
                println!("VIOLATION property={} replay={}", rf.property, path);
                1
            } else {
                println!("(a different violation class than recorded: {})", rf.violation.rule);
                println!("VIOLATION property={} replay={}", rf.property, path);
                1
            }
        }
        None => {
            println!("replay passed: the recorded violation does not occur on the current tree");
            0
        }
    }
}
