//! Tiny s-expression AST used by the generators and the minimiser (printing, parsing of our own
//! generated/corpus text, structural edits). This is *not* kanata's parser.

#[derive(Clone, Debug, PartialEq, Eq, Hash)]
pub enum SX {
    A(String),
    L(Vec<SX>),
}

pub fn a(s: impl Into<String>) -> SX {
    SX::A(s.into())
}
pub fn l(v: Vec<SX>) -> SX {
    SX::L(v)
}
/// (head item item ...)
pub fn call(head: &str, mut items: Vec<SX>) -> SX {
    let mut v = vec![a(head)];
    v.append(&mut items);
    SX::L(v)
}
pub fn num(n: u64) -> SX {
    SX::A(n.to_string())
}

impl SX {
    pub fn is_atom(&self) -> bool {
        matches!(self, SX::A(_))
    }
    pub fn atom(&self) -> Option<&str> {
        match self {
            SX::A(s) => Some(s),
            _ => None,
        }
    }
    pub fn list(&self) -> Option<&[SX]> {
        match self {
            SX::L(v) => Some(v),
            _ => None,
        }
    }
    pub fn head(&self) -> Option<&str> {
        self.list().and_then(|v| v.first()).and_then(|h| h.atom())
    }
    pub fn print(&self, out: &mut String) {
        match self {
            SX::A(s) => out.push_str(s),
            SX::L(v) => {
                out.push('(');
                for (i, x) in v.iter().enumerate() {
                    if i > 0 {
                        out.push(' ');
                    }
                    x.print(out);
                }
                out.push(')');
            }
        }
    }
    pub fn to_text(&self) -> String {
        let mut s = String::new();
        self.print(&mut s);
        s
    }
    /// Number of nodes.
    pub fn size(&self) -> usize {
        match self {
            SX::A(_) => 1,
            SX::L(v) => 1 + v.iter().map(|x| x.size()).sum::<usize>(),
        }
    }
    pub fn depth(&self) -> usize {
        match self {
            SX::A(_) => 0,
            SX::L(v) => 1 + v.iter().map(|x| x.depth()).max().unwrap_or(0),
        }
    }
    /// Visit every node with its path.
    pub fn walk<'a>(&'a self, path: &mut Vec<usize>, f: &mut dyn FnMut(&[usize], &'a SX)) {
        f(path, self);
        if let SX::L(v) = self {
            for (i, x) in v.iter().enumerate() {
                path.push(i);
                x.walk(path, f);
                path.pop();
            }
        }
    }
    pub fn get(&self, path: &[usize]) -> Option<&SX> {
        let mut cur = self;
        for &i in path {
            cur = cur.list()?.get(i)?;
        }
        Some(cur)
    }
    pub fn get_mut(&mut self, path: &[usize]) -> Option<&mut SX> {
        let mut cur = self;
        for &i in path {
            cur = match cur {
                SX::L(v) => v.get_mut(i)?,
                _ => return None,
            };
        }
        Some(cur)
    }
    pub fn replace_at(&self, path: &[usize], new: SX) -> SX {
        let mut c = self.clone();
        if let Some(n) = c.get_mut(path) {
            *n = new;
        }
        c
    }
    pub fn remove_at(&self, path: &[usize]) -> SX {
        let mut c = self.clone();
        if let Some((last, parent)) = path.split_last() {
            if let Some(SX::L(v)) = c.get_mut(parent) {
                if *last < v.len() {
                    v.remove(*last);
                }
            }
        }
        c
    }
}

/// Print a list of top-level forms, one per line.
pub fn print_top(forms: &[SX]) -> String {
    let mut s = String::new();
    for f in forms {
        f.print(&mut s);
        s.push('\n');
    }
    s
}

/// Lenient parser for kanata-like text (handles ;; comments, #| |# comments, "strings",
/// r#"raw strings"#). Returns None if unbalanced. Strings are kept as atoms including quotes.
pub fn parse_top(text: &str) -> Option<Vec<SX>> {
    let b = text.as_bytes();
    let mut i = 0;
    let mut stack: Vec<Vec<SX>> = vec![vec![]];
    while i < b.len() {
        let c = b[i];
        match c {
            b' ' | b'\t' | b'\n' | b'\r' => i += 1,
            b';' if i + 1 < b.len() && b[i + 1] == b';' => {
                while i < b.len() && b[i] != b'\n' {
                    i += 1;
                }
            }
            b'#' if i + 1 < b.len() && b[i + 1] == b'|' => {
                let rest = &text[i + 2..];
                match rest.find("|#") {
                    Some(p) => i = i + 2 + p + 2,
                    None => return None,
                }
            }
            b'(' => {
                stack.push(vec![]);
                i += 1;
            }
            b')' => {
                let v = stack.pop()?;
                stack.last_mut()?.push(SX::L(v));
                i += 1;
            }
            b'"' => {
                let start = i;
                i += 1;
                while i < b.len() && b[i] != b'"' && b[i] != b'\n' {
                    i += 1;
                }
                if i >= b.len() || b[i] != b'"' {
                    return None;
                }
                i += 1;
                stack.last_mut()?.push(SX::A(text[start..i].to_string()));
            }
            b'r' if text[i..].starts_with("r#\"") => {
                let start = i;
                match text[i + 3..].find("\"#") {
                    Some(p) => i = i + 3 + p + 2,
                    None => return None,
                }
                stack.last_mut()?.push(SX::A(text[start..i].to_string()));
            }
            _ => {
                let start = i;
                while i < b.len() && !matches!(b[i], b' ' | b'\t' | b'\n' | b'\r' | b'(' | b')' | b'"') {
                    i += 1;
                }
                stack.last_mut()?.push(SX::A(text[start..i].to_string()));
            }
        }
    }
    if stack.len() != 1 {
        return None;
    }
    stack.pop()
}
