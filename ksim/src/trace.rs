//! Structured output trace parsed back from the project's own `simulated_output` recorder.

use serde::{Deserialize, Serialize};

#[derive(Clone, Debug, PartialEq, Eq, Hash, Serialize, Deserialize)]
pub enum OutKind {
    /// a key event written while handling an OS auto-repeat input (KeyValue::Repeat): the
    /// simulated recorder prints it like a press
    RepeatOut,
    Press,
    Release,
    MouseDown,
    MouseUp,
    MouseMove,
    Scroll,
    Unicode,
    Code,
    Raw,
    Other,
}

#[derive(Clone, Debug, PartialEq, Eq, Hash, Serialize, Deserialize)]
pub struct OutEv {
    /// absolute simulated ms (index of the tick in which it was emitted; events emitted directly
    /// by handle_input_event (repeat) carry the ms of the last tick)
    pub t: u64,
    pub kind: OutKind,
    pub key: String,
    /// index (into the op list) of the last input delivered before this output (usize::MAX: none)
    #[serde(default)]
    pub in_idx: usize,
    /// ticks executed since that input was delivered
    #[serde(default)]
    pub dt: u64,
}

pub fn parse_out(t: u64, s: &str) -> Option<OutEv> {
    if s.starts_with("t:") && s.ends_with("ms") {
        return None;
    }
    let (kind, key) = if let Some(r) = s.strip_prefix("out:↓") {
        (OutKind::Press, r.to_string())
    } else if let Some(r) = s.strip_prefix("out:↑") {
        (OutKind::Release, r.to_string())
    } else if let Some(r) = s.strip_prefix("out🖰:↓") {
        (OutKind::MouseDown, r.to_string())
    } else if let Some(r) = s.strip_prefix("out🖰:↑") {
        (OutKind::MouseUp, r.to_string())
    } else if let Some(r) = s.strip_prefix("out🖰:move ") {
        (OutKind::MouseMove, r.to_string())
    } else if let Some(r) = s.strip_prefix("scroll:") {
        (OutKind::Scroll, r.to_string())
    } else if let Some(r) = s.strip_prefix("outU:") {
        (OutKind::Unicode, r.to_string())
    } else if let Some(r) = s.strip_prefix("out-code:") {
        (OutKind::Code, r.to_string())
    } else if let Some(r) = s.strip_prefix("out-raw:") {
        (OutKind::Raw, r.to_string())
    } else {
        (OutKind::Other, s.to_string())
    };
    Some(OutEv { t, kind, key, in_idx: usize::MAX, dt: 0 })
}

/// Input marker recorded in the trace so oracles can relate outputs to inputs.
#[derive(Clone, Debug, PartialEq, Serialize, Deserialize)]
pub struct InEv {
    /// time of arrival: delivered after tick `t` and before tick `t+1`
    pub t: u64,
    pub op_idx: usize,
}

#[derive(Clone, Debug, Default)]
pub struct Trace {
    pub outs: Vec<OutEv>,
    pub ins: Vec<InEv>,
    /// total ticks executed
    pub ticks: u64,
    /// simulated ms covered (including skipped idle time in blocking mode)
    pub sim_ms: u64,
    /// output events emitted while the can-block decision was true and no input arrived since
    pub outputs_while_blockable: Vec<OutEv>,
    /// number of times can_block was true
    pub blockable_points: u64,
    /// ms skipped by blocking
    pub skipped_ms: u64,
}

/// Integrates presses/releases into the set of keys down at the OS. A release of a key that is not
/// down is ignored (as the BUG(sequences) comment in mod.rs documents). Returns (down set in press
/// order, number of presses of already-down keys (= repeats), number of orphan releases).
#[derive(Clone, Debug, Default)]
pub struct DownSet {
    pub keys: Vec<String>,
    pub buttons: Vec<String>,
    pub repeats: u64,
    pub orphan_releases: u64,
    /// repeat outputs for keys that are not down at the OS
    pub repeats_for_up_keys: u64,
}

impl DownSet {
    pub fn apply(&mut self, e: &OutEv) {
        match e.kind {
            OutKind::Press => {
                if self.keys.contains(&e.key) {
                    self.repeats += 1;
                } else {
                    self.keys.push(e.key.clone());
                }
            }
            OutKind::RepeatOut => {
                if self.keys.contains(&e.key) {
                    self.repeats += 1;
                } else {
                    self.repeats_for_up_keys += 1;
                }
            }
            OutKind::Release => {
                if let Some(p) = self.keys.iter().position(|k| *k == e.key) {
                    self.keys.remove(p);
                } else {
                    self.orphan_releases += 1;
                }
            }
            OutKind::MouseDown => {
                if !self.buttons.contains(&e.key) {
                    self.buttons.push(e.key.clone());
                }
            }
            OutKind::MouseUp => {
                if let Some(p) = self.buttons.iter().position(|k| *k == e.key) {
                    self.buttons.remove(p);
                }
            }
            OutKind::Code => {
                if let Some((code, v)) = e.key.split_once(';') {
                    let name = format!("code{code}");
                    if v == "Press" {
                        if !self.keys.contains(&name) {
                            self.keys.push(name);
                        }
                    } else if v == "Release" {
                        self.keys.retain(|k| *k != name);
                    }
                }
            }
            _ => {}
        }
    }
    pub fn is_empty(&self) -> bool {
        self.keys.is_empty() && self.buttons.is_empty()
    }
}

pub fn fnv(h: u64, bytes: &[u8]) -> u64 {
    let mut h = if h == 0 { 0xcbf29ce484222325 } else { h };
    for b in bytes {
        h ^= *b as u64;
        h = h.wrapping_mul(0x100000001b3);
    }
    h
}

/// Signature of a trace for "distinct" counting: the sequence of (kind, key) with gap buckets.
pub fn trace_sig(outs: &[OutEv]) -> u64 {
    let mut h = 0u64;
    let mut prev = 0u64;
    for e in outs {
        let gap = e.t.saturating_sub(prev);
        prev = e.t;
        let bucket: u8 = match gap {
            0 => 0,
            1 => 1,
            2..=9 => 2,
            10..=99 => 3,
            100..=999 => 4,
            _ => 5,
        };
        h = fnv(h, &[bucket, e.kind.clone() as u8]);
        h = fnv(h, e.key.as_bytes());
    }
    h
}

pub fn outs_short(outs: &[OutEv]) -> String {
    let mut s = String::new();
    for e in outs {
        let k = match e.kind {
            OutKind::Press => "↓",
            OutKind::RepeatOut => "⟳",
            OutKind::Release => "↑",
            OutKind::MouseDown => "🖰↓",
            OutKind::MouseUp => "🖰↑",
            OutKind::MouseMove => "mv:",
            OutKind::Scroll => "scroll:",
            OutKind::Unicode => "U:",
            OutKind::Code => "code:",
            OutKind::Raw => "raw:",
            OutKind::Other => "?:",
        };
        if !s.is_empty() {
            s.push(' ');
        }
        s.push_str(&format!("{}@{}{}", e.t, k, e.key));
    }
    s
}
