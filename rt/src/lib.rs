//! kanata-verif-rt: the simulator runtime that the `--cfg kanata_verif` seam in /repo points at.
//!
//! Baton scheduler: tasks are real OS threads but exactly one holds the baton; every intercepted
//! operation (Mutex lock, channel send/recv/try_*, sleep, Instant::now, spawn, join, task exit) is
//! a scheduling point at which a seeded choice source decides who runs next and how much virtual
//! time the step cost. When nothing is runnable the clock jumps to the earliest sleeper
//! (discrete-event time). All choices go through `World::draw`, which logs them on a tape; a tape
//! can be replayed (and shrunk: 0 is always the default choice = stay on the current / lowest
//! task, zero cost, no stall, no overshoot).
//!
//! Outside a simulation (no `run` active on this thread) the types behave like the originals,
//! except that `sleep` advances a process-wide virtual clock instead of blocking and
//! `Instant::now()` reads that clock.

use std::cell::Cell;
use std::collections::VecDeque;
use std::sync::atomic::{AtomicBool, AtomicU64, AtomicUsize, Ordering};
use std::sync::{Arc, Condvar, Mutex as StdMutex, MutexGuard as StdGuard};
use std::time::Duration;

pub const BASE_NS: u64 = 1_000_000_000_000;
static INACTIVE_CLOCK: AtomicU64 = AtomicU64::new(BASE_NS);

/// Advance / read the virtual clock used outside simulations (executor A).
pub fn inactive_clock_ns() -> u64 {
    INACTIVE_CLOCK.load(Ordering::SeqCst)
}
pub fn inactive_clock_advance(ns: u64) {
    INACTIVE_CLOCK.fetch_add(ns, Ordering::SeqCst);
}
/// Total virtual nanoseconds slept outside simulations (probe for on-press-delay etc).
static INACTIVE_SLEPT: AtomicU64 = AtomicU64::new(0);
pub fn inactive_slept_ns() -> u64 {
    INACTIVE_SLEPT.load(Ordering::SeqCst)
}

// ------------------------------------------------------------------------------------------
// PRNG (self-contained so streams never change under us)
// ------------------------------------------------------------------------------------------

#[derive(Clone, Debug)]
pub struct Rng {
    s: [u64; 4],
}
impl Rng {
    pub fn new(seed: u64) -> Self {
        let mut z = seed;
        let mut next = || {
            z = z.wrapping_add(0x9E3779B97F4A7C15);
            let mut x = z;
            x = (x ^ (x >> 30)).wrapping_mul(0xBF58476D1CE4E5B9);
            x = (x ^ (x >> 27)).wrapping_mul(0x94D049BB133111EB);
            x ^ (x >> 31)
        };
        let s = [next(), next(), next(), next()];
        Rng { s }
    }
    pub fn next_u64(&mut self) -> u64 {
        let result = (self.s[1].wrapping_mul(5)).rotate_left(7).wrapping_mul(9);
        let t = self.s[1] << 17;
        self.s[2] ^= self.s[0];
        self.s[3] ^= self.s[1];
        self.s[1] ^= self.s[2];
        self.s[0] ^= self.s[3];
        self.s[2] ^= t;
        self.s[3] = self.s[3].rotate_left(45);
        result
    }
    /// Uniform in [0, bound). bound must be > 0.
    pub fn below(&mut self, bound: u64) -> u64 {
        debug_assert!(bound > 0);
        // multiply-shift; bias negligible for our bounds
        ((self.next_u64() as u128 * bound as u128) >> 64) as u64
    }
}

// ------------------------------------------------------------------------------------------
// World
// ------------------------------------------------------------------------------------------

#[derive(Clone, Copy, Debug, PartialEq)]
enum TState {
    Runnable,
    Sleeping(u64),
    BlockedMutex(usize),
    BlockedRecv(usize),
    BlockedSend(usize),
    BlockedJoin(usize),
    Done,
}

#[derive(Clone, Debug)]
pub struct SimCfg {
    pub seed: u64,
    /// per scheduling point cost, uniform in 0..=cost_max_ns
    pub cost_max_ns: u64,
    /// probability (permille) that a non-forced scheduling point considers switching task
    pub switch_permille: u64,
    /// probability (permille) that a scheduling point is a stall (slow / descheduled thread)
    pub stall_permille: u64,
    pub stall_min_ns: u64,
    pub stall_max_ns: u64,
    /// sleep overshoot, uniform in 0..=sleep_overshoot_max_ns
    pub sleep_overshoot_max_ns: u64,
    /// If set: choices are taken from this tape (exhausted => 0) instead of the PRNG.
    pub tape: Option<Vec<u64>>,
    pub max_steps: u64,
}
impl Default for SimCfg {
    fn default() -> Self {
        SimCfg {
            seed: 0,
            cost_max_ns: 0,
            switch_permille: 0,
            stall_permille: 0,
            stall_min_ns: 0,
            stall_max_ns: 0,
            sleep_overshoot_max_ns: 0,
            tape: None,
            max_steps: 50_000_000,
        }
    }
}

#[derive(Clone, Debug, Default)]
pub struct RunReport {
    pub end_ns: u64,
    pub steps: u64,
    pub switches: u64,
    pub stalls: u64,
    pub clock_jumps: u64,
    pub tape: Vec<u64>,
    pub deadlock: bool,
    pub overrun: bool,
    pub leaked: usize,
    /// (task name, panic message) in deterministic order of occurrence
    pub panics: Vec<(String, String)>,
    pub tasks: usize,
    /// hash over (step, task) scheduling decisions: identifies the interleaving
    pub schedule_hash: u64,
}

struct World {
    epoch: u64,
    active: bool,
    poisoned: bool,
    now_ns: u64,
    cur: usize,
    tasks: Vec<(String, TState)>,
    rng: Rng,
    cfg: SimCfg,
    tape_pos: usize,
    report: RunReport,
}

impl World {
    fn draw(&mut self, bound: u64) -> u64 {
        let v = if bound <= 1 {
            0
        } else if let Some(t) = &self.cfg.tape {
            let x = t.get(self.tape_pos).copied().unwrap_or(0);
            self.tape_pos += 1;
            if x >= bound {
                bound - 1
            } else {
                x
            }
        } else {
            self.rng.below(bound)
        };
        if bound > 1 {
            self.report.tape.push(v);
        }
        v
    }
}

static WORLD: StdMutex<Option<World>> = StdMutex::new(None);
static CV: Condvar = Condvar::new();
static EPOCH: AtomicU64 = AtomicU64::new(0);

thread_local! {
    static TASK: Cell<Option<(u64, usize)>> = const { Cell::new(None) };
}

struct SimAbort;

fn lock_world() -> StdGuard<'static, Option<World>> {
    WORLD.lock().unwrap_or_else(|e| e.into_inner())
}

fn me() -> Option<usize> {
    TASK.with(|t| t.get()).map(|(_, id)| id)
}

pub fn in_sim() -> bool {
    me().is_some()
}

/// Virtual now in ns (no scheduling point).
pub fn now_ns() -> u64 {
    if in_sim() {
        let g = lock_world();
        g.as_ref().map(|w| w.now_ns).unwrap_or(BASE_NS)
    } else {
        inactive_clock_ns()
    }
}

fn abort_thread() -> ! {
    std::panic::resume_unwind(Box::new(SimAbort));
}

/// The heart: called by the baton holder `me` after it has set its own state (Runnable or a
/// blocked/sleeping/done state). Charges time, picks the next task, hands the baton over and
/// waits until the baton comes back (unless `me` is Done).
fn sched(me: usize, mut g: StdGuard<'static, Option<World>>, forced_consider: bool) {
    {
        let w = g.as_mut().expect("world");
        if w.poisoned {
            drop(g);
            abort_thread();
        }
        w.report.steps += 1;
        if w.report.steps > w.cfg.max_steps {
            w.report.overrun = true;
            w.poisoned = true;
            CV.notify_all();
            drop(g);
            abort_thread();
        }
        // time cost of this step
        let mut cost = 0;
        if w.cfg.stall_permille > 0 && w.cfg.stall_max_ns > 0 {
            let d = w.draw(1000);
            if d >= 1000 - w.cfg.stall_permille.min(1000) {
                let span = w.cfg.stall_max_ns.saturating_sub(w.cfg.stall_min_ns);
                cost += w.cfg.stall_min_ns + w.draw(span + 1);
                w.report.stalls += 1;
            }
        }
        if w.cfg.cost_max_ns > 0 {
            cost += w.draw(w.cfg.cost_max_ns + 1);
        }
        w.now_ns += cost;
        let me_runnable = w.tasks[me].1 == TState::Runnable;
        // pick next
        let next = loop {
            let now = w.now_ns;
            for t in w.tasks.iter_mut() {
                if let TState::Sleeping(at) = t.1 {
                    if at <= now {
                        t.1 = TState::Runnable;
                    }
                }
            }
            let runnable: Vec<usize> = w
                .tasks
                .iter()
                .enumerate()
                .filter(|(_, t)| t.1 == TState::Runnable)
                .map(|(i, _)| i)
                .collect();
            if runnable.is_empty() {
                let min_wake = w
                    .tasks
                    .iter()
                    .filter_map(|t| match t.1 {
                        TState::Sleeping(at) => Some(at),
                        _ => None,
                    })
                    .min();
                match min_wake {
                    Some(at) => {
                        w.now_ns = at;
                        w.report.clock_jumps += 1;
                        continue;
                    }
                    None => {
                        // Everything blocked (or done): nothing can ever run again.
                        let all_done = w.tasks.iter().all(|t| t.1 == TState::Done);
                        if !all_done {
                            w.report.deadlock = true;
                        }
                        w.poisoned = true;
                        CV.notify_all();
                        drop(g);
                        if all_done {
                            return;
                        }
                        abort_thread();
                    }
                }
            }
            if me_runnable {
                let consider = if runnable.len() > 1 {
                    if forced_consider {
                        true
                    } else if w.cfg.switch_permille > 0 {
                        let d = w.draw(1000);
                        d >= 1000 - w.cfg.switch_permille.min(1000)
                    } else {
                        false
                    }
                } else {
                    false
                };
                if consider {
                    // 0 = stay on me; k>0 = k-th other runnable task by id
                    let others: Vec<usize> = runnable.iter().copied().filter(|&i| i != me).collect();
                    let k = w.draw(others.len() as u64 + 1) as usize;
                    break if k == 0 { me } else { others[k - 1] };
                } else {
                    break me;
                }
            } else {
                let k = w.draw(runnable.len() as u64) as usize;
                break runnable[k];
            }
        };
        if next != me {
            w.report.switches += 1;
        }
        let h = w.report.schedule_hash;
        w.report.schedule_hash = (h ^ (next as u64 + 1)).wrapping_mul(0x100000001b3).rotate_left(5)
            ^ if next != me { w.report.steps } else { 0 };
        w.cur = next;
        if next == me {
            return;
        }
        CV.notify_all();
        if w.tasks[me].1 == TState::Done {
            return;
        }
    }
    wait_for_baton(me, g);
}

fn wait_for_baton(me: usize, mut g: StdGuard<'static, Option<World>>) {
    loop {
        {
            let w = g.as_ref().expect("world");
            if w.poisoned {
                drop(g);
                abort_thread();
            }
            if w.cur == me {
                return;
            }
        }
        g = CV.wait(g).unwrap_or_else(|e| e.into_inner());
    }
}

/// A plain scheduling point for the running task.
fn sched_point() {
    if let Some(me) = me() {
        let g = lock_world();
        sched(me, g, false);
    }
}

fn block_on(state: TState) {
    let me = me().expect("in sim");
    let mut g = lock_world();
    g.as_mut().expect("world").tasks[me].1 = state;
    sched(me, g, false);
}

fn wake_where(pred: impl Fn(&TState) -> bool) {
    let mut g = lock_world();
    if let Some(w) = g.as_mut() {
        for t in w.tasks.iter_mut() {
            if pred(&t.1) {
                t.1 = TState::Runnable;
            }
        }
    }
}

/// Run `f` as task 0 of a fresh simulation on the current thread.
pub fn run<R>(cfg: SimCfg, f: impl FnOnce() -> R) -> (Option<R>, RunReport) {
    assert!(!in_sim(), "nested simulation");
    let epoch = EPOCH.fetch_add(1, Ordering::SeqCst) + 1;
    {
        let mut g = lock_world();
        assert!(g.as_ref().map(|w| !w.active).unwrap_or(true), "a simulation is already active in this process");
        *g = Some(World {
            epoch,
            active: true,
            poisoned: false,
            now_ns: BASE_NS,
            cur: 0,
            tasks: vec![("main".to_string(), TState::Runnable)],
            rng: Rng::new(cfg.seed),
            cfg,
            tape_pos: 0,
            report: RunReport::default(),
        });
    }
    TASK.with(|t| t.set(Some((epoch, 0))));
    let res = std::panic::catch_unwind(std::panic::AssertUnwindSafe(f));
    // task 0 is done with its closure: wait for the others to finish by themselves.
    let mut handles = Vec::new();
    {
        let mut g = lock_world();
        let poisoned = g.as_ref().unwrap().poisoned;
        if !poisoned {
            // block as a joiner of "everything"
            loop {
                let w = g.as_mut().unwrap();
                let others_done = w.tasks.iter().skip(1).all(|t| t.1 == TState::Done);
                if others_done || w.poisoned {
                    break;
                }
                w.tasks[0].1 = TState::BlockedJoin(usize::MAX);
                // sched may abort (deadlock => leaked tasks). Catch that.
                let r = std::panic::catch_unwind(std::panic::AssertUnwindSafe(|| sched(0, g, false)));
                g = lock_world();
                if r.is_err() {
                    break;
                }
            }
        }
        let w = g.as_mut().unwrap();
        w.report.leaked = w.tasks.iter().skip(1).filter(|t| t.1 != TState::Done).count();
        w.poisoned = true;
        CV.notify_all();
        std::mem::swap(&mut handles, &mut *OS_HANDLES.lock().unwrap_or_else(|e| e.into_inner()));
    }
    for h in handles {
        let _ = h.join();
    }
    TASK.with(|t| t.set(None));
    let mut g = lock_world();
    let w = g.as_mut().unwrap();
    w.active = false;
    let mut report = std::mem::take(&mut w.report);
    report.end_ns = w.now_ns;
    report.tasks = w.tasks.len();
    let out = match res {
        Ok(v) => Some(v),
        Err(p) => {
            if p.downcast_ref::<SimAbort>().is_none() {
                report.panics.push(("main".into(), payload_msg(&p)));
            }
            None
        }
    };
    (out, report)
}

fn payload_msg(p: &Box<dyn std::any::Any + Send>) -> String {
    if let Some(s) = p.downcast_ref::<&str>() {
        s.to_string()
    } else if let Some(s) = p.downcast_ref::<String>() {
        s.clone()
    } else {
        "<non-string panic payload>".to_string()
    }
}

static OS_HANDLES: StdMutex<Vec<std::thread::JoinHandle<()>>> = StdMutex::new(Vec::new());

// ------------------------------------------------------------------------------------------
// thread
// ------------------------------------------------------------------------------------------

pub mod thread {
    use super::*;

    pub struct JoinHandle<T> {
        slot: Arc<StdMutex<Option<std::thread::Result<T>>>>,
        task: Option<usize>,
        os: Option<std::thread::JoinHandle<()>>,
    }

    impl<T> JoinHandle<T> {
        pub fn join(mut self) -> std::thread::Result<T> {
            if let Some(id) = self.task {
                if in_sim() {
                    loop {
                        {
                            let g = lock_world();
                            let w = g.as_ref().expect("world");
                            if w.tasks[id].1 == TState::Done {
                                break;
                            }
                        }
                        block_on(TState::BlockedJoin(id));
                    }
                    // the OS thread is joined at the end of `run`
                    loop {
                        if let Some(r) = self.slot.lock().unwrap_or_else(|e| e.into_inner()).take() {
                            return r;
                        }
                        std::thread::yield_now();
                    }
                }
            }
            if let Some(os) = self.os.take() {
                let _ = os.join();
            }
            let r = self.slot.lock().unwrap_or_else(|e| e.into_inner()).take();
            r.expect("thread result")
        }
        pub fn is_finished(&self) -> bool {
            self.slot.lock().unwrap_or_else(|e| e.into_inner()).is_some()
        }
    }

    pub fn spawn<F, T>(f: F) -> JoinHandle<T>
    where
        F: FnOnce() -> T + Send + 'static,
        T: Send + 'static,
    {
        spawn_named("task", f)
    }

    pub fn spawn_named<F, T>(name: &str, f: F) -> JoinHandle<T>
    where
        F: FnOnce() -> T + Send + 'static,
        T: Send + 'static,
    {
        let slot: Arc<StdMutex<Option<std::thread::Result<T>>>> = Arc::new(StdMutex::new(None));
        let slot2 = slot.clone();
        if let Some((epoch, parent)) = TASK.with(|t| t.get()) {
            let id = {
                let mut g = lock_world();
                let w = g.as_mut().expect("world");
                w.tasks.push((format!("{}#{}", name, w.tasks.len()), TState::Runnable));
                w.tasks.len() - 1
            };
            let os = std::thread::Builder::new()
                .name(format!("sim-{id}"))
                .stack_size(16 << 20)
                .spawn(move || {
                    TASK.with(|t| t.set(Some((epoch, id))));
                    let r = std::panic::catch_unwind(std::panic::AssertUnwindSafe(|| {
                        let g = lock_world();
                        wait_for_baton(id, g);
                        f()
                    }));
                    let aborted = matches!(&r, Err(p) if p.downcast_ref::<SimAbort>().is_some());
                    {
                        let mut g = lock_world();
                        if let Some(w) = g.as_mut() {
                            if w.epoch == epoch {
                                if let Err(p) = &r {
                                    if !aborted {
                                        let name = w.tasks[id].0.clone();
                                        w.report.panics.push((name, payload_msg(p)));
                                    }
                                }
                            }
                        }
                    }
                    *slot2.lock().unwrap_or_else(|e| e.into_inner()) = Some(r);
                    // mark done, wake joiners, pass the baton
                    let mut g = lock_world();
                    if let Some(w) = g.as_mut() {
                        if w.epoch == epoch {
                            w.tasks[id].1 = TState::Done;
                            for t in w.tasks.iter_mut() {
                                if t.1 == TState::BlockedJoin(id) || t.1 == TState::BlockedJoin(usize::MAX) {
                                    t.1 = TState::Runnable;
                                }
                            }
                            if !w.poisoned && w.cur == id {
                                let _ = std::panic::catch_unwind(std::panic::AssertUnwindSafe(|| sched(id, g, false)));
                            }
                        }
                    }
                })
                .expect("spawn os thread");
            OS_HANDLES.lock().unwrap_or_else(|e| e.into_inner()).push(os);
            // spawning is a scheduling point for the parent
            let g = lock_world();
            sched(parent, g, false);
            JoinHandle { slot, task: Some(id), os: None }
        } else {
            let os = std::thread::spawn(move || {
                let r = std::panic::catch_unwind(std::panic::AssertUnwindSafe(f));
                *slot2.lock().unwrap_or_else(|e| e.into_inner()) = Some(r);
            });
            JoinHandle { slot, task: None, os: Some(os) }
        }
    }

    pub fn sleep(d: Duration) {
        let ns = d.as_nanos().min(u64::MAX as u128) as u64;
        if let Some(me) = me() {
            let mut g = lock_world();
            let w = g.as_mut().expect("world");
            let over = if w.cfg.sleep_overshoot_max_ns > 0 {
                w.draw(w.cfg.sleep_overshoot_max_ns + 1)
            } else {
                0
            };
            let at = w.now_ns.saturating_add(ns).saturating_add(over);
            w.tasks[me].1 = TState::Sleeping(at);
            sched(me, g, false);
        } else {
            INACTIVE_SLEPT.fetch_add(ns, Ordering::SeqCst);
            inactive_clock_advance(ns);
        }
    }

    /// Sleep until an absolute virtual time (harness use).
    pub fn sleep_until_ns(at: u64) {
        if let Some(me) = me() {
            let mut g = lock_world();
            let w = g.as_mut().expect("world");
            if at > w.now_ns {
                w.tasks[me].1 = TState::Sleeping(at);
            }
            sched(me, g, false);
        }
    }

    /// A pure scheduling point with forced consideration of a switch (harness use).
    pub fn yield_now() {
        if let Some(me) = me() {
            let g = lock_world();
            sched(me, g, true);
        }
    }
}

// ------------------------------------------------------------------------------------------
// instant
// ------------------------------------------------------------------------------------------

pub mod instant {
    use super::*;
    use std::ops::{Add, AddAssign, Sub, SubAssign};

    #[derive(Copy, Clone, Debug, PartialEq, Eq, PartialOrd, Ord, Hash)]
    pub struct Instant(u64);

    impl Instant {
        pub fn now() -> Instant {
            if in_sim() {
                sched_point();
            }
            Instant(now_ns())
        }
        pub fn from_ns(ns: u64) -> Instant {
            Instant(ns)
        }
        pub fn as_ns(&self) -> u64 {
            self.0
        }
        pub fn duration_since(&self, earlier: Instant) -> Duration {
            Duration::from_nanos(self.0.saturating_sub(earlier.0))
        }
        pub fn checked_duration_since(&self, earlier: Instant) -> Option<Duration> {
            self.0.checked_sub(earlier.0).map(Duration::from_nanos)
        }
        pub fn saturating_duration_since(&self, earlier: Instant) -> Duration {
            self.duration_since(earlier)
        }
        pub fn elapsed(&self) -> Duration {
            Instant::now().duration_since(*self)
        }
        pub fn checked_add(&self, d: Duration) -> Option<Instant> {
            u64::try_from(d.as_nanos()).ok().and_then(|n| self.0.checked_add(n)).map(Instant)
        }
        pub fn checked_sub(&self, d: Duration) -> Option<Instant> {
            u64::try_from(d.as_nanos()).ok().and_then(|n| self.0.checked_sub(n)).map(Instant)
        }
    }
    impl Add<Duration> for Instant {
        type Output = Instant;
        fn add(self, d: Duration) -> Instant {
            self.checked_add(d).expect("overflow when adding duration to instant")
        }
    }
    impl AddAssign<Duration> for Instant {
        fn add_assign(&mut self, d: Duration) {
            *self = *self + d;
        }
    }
    impl Sub<Duration> for Instant {
        type Output = Instant;
        fn sub(self, d: Duration) -> Instant {
            self.checked_sub(d).expect("overflow when subtracting duration from instant")
        }
    }
    impl SubAssign<Duration> for Instant {
        fn sub_assign(&mut self, d: Duration) {
            *self = *self - d;
        }
    }
    impl Sub<Instant> for Instant {
        type Output = Duration;
        fn sub(self, o: Instant) -> Duration {
            self.duration_since(o)
        }
    }
}

// ------------------------------------------------------------------------------------------
// parking_lot::Mutex
// ------------------------------------------------------------------------------------------

pub mod parking_lot {
    use super::*;
    use std::ops::{Deref, DerefMut};

    pub struct Mutex<T: ?Sized> {
        inner: ::parking_lot::Mutex<T>,
    }

    pub struct MutexGuard<'a, T: ?Sized> {
        g: Option<::parking_lot::MutexGuard<'a, T>>,
        addr: usize,
        sim: bool,
    }

    impl<T> Mutex<T> {
        pub const fn new(v: T) -> Self {
            Mutex { inner: ::parking_lot::Mutex::new(v) }
        }
        pub fn into_inner(self) -> T {
            self.inner.into_inner()
        }
    }

    impl<T: ?Sized> Mutex<T> {
        fn addr(&self) -> usize {
            &self.inner as *const _ as *const u8 as usize
        }
        pub fn lock(&self) -> MutexGuard<'_, T> {
            let addr = self.addr();
            if in_sim() {
                sched_point();
                loop {
                    if let Some(g) = self.inner.try_lock() {
                        return MutexGuard { g: Some(g), addr, sim: true };
                    }
                    block_on(TState::BlockedMutex(addr));
                }
            } else {
                MutexGuard { g: Some(self.inner.lock()), addr, sim: false }
            }
        }
        pub fn try_lock(&self) -> Option<MutexGuard<'_, T>> {
            let addr = self.addr();
            let sim = in_sim();
            if sim {
                sched_point();
            }
            self.inner.try_lock().map(|g| MutexGuard { g: Some(g), addr, sim })
        }
        pub fn is_locked(&self) -> bool {
            self.inner.is_locked()
        }
        pub fn get_mut(&mut self) -> &mut T {
            self.inner.get_mut()
        }
    }

    impl<T: Default> Default for Mutex<T> {
        fn default() -> Self {
            Mutex::new(T::default())
        }
    }

    impl<'a, T: ?Sized> Deref for MutexGuard<'a, T> {
        type Target = T;
        fn deref(&self) -> &T {
            self.g.as_ref().unwrap()
        }
    }
    impl<'a, T: ?Sized> DerefMut for MutexGuard<'a, T> {
        fn deref_mut(&mut self) -> &mut T {
            self.g.as_mut().unwrap()
        }
    }
    impl<'a, T: ?Sized> Drop for MutexGuard<'a, T> {
        fn drop(&mut self) {
            self.g.take();
            if self.sim {
                let addr = self.addr;
                wake_where(|s| *s == TState::BlockedMutex(addr));
            }
        }
    }
}

// ------------------------------------------------------------------------------------------
// mpsc
// ------------------------------------------------------------------------------------------

pub mod mpsc {
    use super::*;
    pub use std::sync::mpsc::{RecvError, RecvTimeoutError, SendError, TryRecvError, TrySendError};

    struct Chan<T> {
        q: StdMutex<VecDeque<T>>,
        cv: Condvar,
        cap: Option<usize>,
        senders: AtomicUsize,
        rx_alive: AtomicBool,
    }
    impl<T> Chan<T> {
        fn id(self: &Arc<Self>) -> usize {
            Arc::as_ptr(self) as *const u8 as usize
        }
    }

    pub struct SyncSender<T> {
        c: Arc<Chan<T>>,
    }
    pub struct Sender<T> {
        c: Arc<Chan<T>>,
    }
    pub struct Receiver<T> {
        c: Arc<Chan<T>>,
    }

    pub fn sync_channel<T>(bound: usize) -> (SyncSender<T>, Receiver<T>) {
        let c = Arc::new(Chan {
            q: StdMutex::new(VecDeque::new()),
            cv: Condvar::new(),
            cap: Some(bound.max(1)),
            senders: AtomicUsize::new(1),
            rx_alive: AtomicBool::new(true),
        });
        (SyncSender { c: c.clone() }, Receiver { c })
    }
    pub fn channel<T>() -> (Sender<T>, Receiver<T>) {
        let c = Arc::new(Chan {
            q: StdMutex::new(VecDeque::new()),
            cv: Condvar::new(),
            cap: None,
            senders: AtomicUsize::new(1),
            rx_alive: AtomicBool::new(true),
        });
        (Sender { c: c.clone() }, Receiver { c })
    }

    fn q<T>(c: &Chan<T>) -> StdGuard<'_, VecDeque<T>> {
        c.q.lock().unwrap_or_else(|e| e.into_inner())
    }

    fn do_send<T>(c: &Arc<Chan<T>>, mut v: T, blocking: bool) -> Result<(), TrySendError<T>> {
        let id = c.id();
        let sim = in_sim();
        if sim {
            sched_point();
        }
        loop {
            if !c.rx_alive.load(Ordering::SeqCst) {
                return Err(TrySendError::Disconnected(v));
            }
            {
                let mut qq = q(c);
                if c.cap.map(|cap| qq.len() < cap).unwrap_or(true) {
                    qq.push_back(v);
                    drop(qq);
                    if sim {
                        wake_where(|s| *s == TState::BlockedRecv(id));
                    } else {
                        c.cv.notify_all();
                    }
                    return Ok(());
                }
                if !blocking {
                    return Err(TrySendError::Full(v));
                }
                if !sim {
                    // real blocking wait
                    let _g = c.cv.wait_timeout(qq, Duration::from_millis(50)).unwrap_or_else(|e| e.into_inner());
                    v = v;
                    continue;
                }
            }
            block_on(TState::BlockedSend(id));
        }
    }

    impl<T> SyncSender<T> {
        pub fn send(&self, v: T) -> Result<(), SendError<T>> {
            match do_send(&self.c, v, true) {
                Ok(()) => Ok(()),
                Err(TrySendError::Disconnected(v)) | Err(TrySendError::Full(v)) => Err(SendError(v)),
            }
        }
        pub fn try_send(&self, v: T) -> Result<(), TrySendError<T>> {
            do_send(&self.c, v, false)
        }
    }
    impl<T> Sender<T> {
        pub fn send(&self, v: T) -> Result<(), SendError<T>> {
            match do_send(&self.c, v, true) {
                Ok(()) => Ok(()),
                Err(TrySendError::Disconnected(v)) | Err(TrySendError::Full(v)) => Err(SendError(v)),
            }
        }
    }
    impl<T> Clone for SyncSender<T> {
        fn clone(&self) -> Self {
            self.c.senders.fetch_add(1, Ordering::SeqCst);
            SyncSender { c: self.c.clone() }
        }
    }
    impl<T> Clone for Sender<T> {
        fn clone(&self) -> Self {
            self.c.senders.fetch_add(1, Ordering::SeqCst);
            Sender { c: self.c.clone() }
        }
    }
    fn drop_sender<T>(c: &Arc<Chan<T>>) {
        if c.senders.fetch_sub(1, Ordering::SeqCst) == 1 {
            let id = c.id();
            if in_sim() {
                wake_where(|s| *s == TState::BlockedRecv(id));
            }
            c.cv.notify_all();
        }
    }
    impl<T> Drop for SyncSender<T> {
        fn drop(&mut self) {
            drop_sender(&self.c);
        }
    }
    impl<T> Drop for Sender<T> {
        fn drop(&mut self) {
            drop_sender(&self.c);
        }
    }
    impl<T> Drop for Receiver<T> {
        fn drop(&mut self) {
            self.c.rx_alive.store(false, Ordering::SeqCst);
            let id = self.c.id();
            if in_sim() {
                wake_where(|s| *s == TState::BlockedSend(id));
            }
            self.c.cv.notify_all();
        }
    }

    impl<T> Receiver<T> {
        pub fn try_recv(&self) -> Result<T, TryRecvError> {
            let sim = in_sim();
            if sim {
                sched_point();
            }
            let id = self.c.id();
            let mut qq = q(&self.c);
            match qq.pop_front() {
                Some(v) => {
                    drop(qq);
                    if sim {
                        wake_where(|s| *s == TState::BlockedSend(id));
                    } else {
                        self.c.cv.notify_all();
                    }
                    Ok(v)
                }
                None => {
                    if self.c.senders.load(Ordering::SeqCst) == 0 {
                        Err(TryRecvError::Disconnected)
                    } else {
                        Err(TryRecvError::Empty)
                    }
                }
            }
        }
        pub fn recv(&self) -> Result<T, RecvError> {
            let sim = in_sim();
            if sim {
                sched_point();
            }
            let id = self.c.id();
            loop {
                {
                    let mut qq = q(&self.c);
                    if let Some(v) = qq.pop_front() {
                        drop(qq);
                        if sim {
                            wake_where(|s| *s == TState::BlockedSend(id));
                        } else {
                            self.c.cv.notify_all();
                        }
                        return Ok(v);
                    }
                    if self.c.senders.load(Ordering::SeqCst) == 0 {
                        return Err(RecvError);
                    }
                    if !sim {
                        let _g = self.c.cv.wait_timeout(qq, Duration::from_millis(50)).unwrap_or_else(|e| e.into_inner());
                        continue;
                    }
                }
                block_on(TState::BlockedRecv(id));
            }
        }
        /// Number of queued items (harness probe).
        pub fn len(&self) -> usize {
            q(&self.c).len()
        }
        pub fn iter(&self) -> Iter<'_, T> {
            Iter { rx: self }
        }
    }
    pub struct Iter<'a, T> {
        rx: &'a Receiver<T>,
    }
    impl<'a, T> Iterator for Iter<'a, T> {
        type Item = T;
        fn next(&mut self) -> Option<T> {
            self.rx.recv().ok()
        }
    }
    impl<T> SyncSender<T> {
        pub fn queue_len(&self) -> usize {
            q(&self.c).len()
        }
    }
}
