#!/bin/bash
# usage: determinism.sh "<ids>" : runs each quick check twice with the same seed at different worker
# counts and compares everything in the evidence except wall-clock fields
cd /verif
for id in $1; do
  VERIF_SEED=${SEED:-7} VERIF_JOBS=5 VERIF_RUNS=${RUNS:-20000} ./check $id quick >/dev/null 2>&1; cp evidence/$id.json /tmp/det_a.json
  VERIF_SEED=${SEED:-7} VERIF_JOBS=16 VERIF_RUNS=${RUNS:-20000} ./check $id quick >/dev/null 2>&1; cp evidence/$id.json /tmp/det_b.json
  python3 - $id <<'PY'
import json,sys
def norm(p):
    d=json.load(open(p))
    for k in ['wall_s']: d.pop(k,None)
    c=d.get('coverage',{})
    for k in ['runs_per_hour','seeds_per_hour','wall_s','samples','jobs','workers']: c.pop(k,None)
    return json.dumps(d,sort_keys=True)
a,b=norm('/tmp/det_a.json'),norm('/tmp/det_b.json')
print(sys.argv[1], 'IDENTICAL' if a==b else 'DIFFERENT')
if a!=b:
    da,db=json.loads(a),json.loads(b)
    ca,cb=da['coverage'],db['coverage']
    for k in set(ca)|set(cb):
        if ca.get(k)!=cb.get(k): print('  differs:',k, str(ca.get(k))[:200], '|', str(cb.get(k))[:200])
PY
done
