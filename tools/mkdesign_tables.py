#!/usr/bin/env python3
"""Regenerates the data-driven parts of DESIGN.md section D10 (D10.4 fixed defects, D10.5 known findings,
D10.6 seeded defects) from known_findings.json and seeded/*/meta.json."""
import json, glob, os
p='/verif/DESIGN.md'
s=open(p).read()
d=json.load(open('/verif/known_findings.json'))
def section(start, end, body):
    global s
    a=s.index(start); b=s.index(end)
    s=s[:a]+body+s[b:]
# D10.4
out=["### D10.4 Genuine defects repaired in /repo (one `fix:` commit each; the 280-test baseline passes after every one)\n"]
by={}
for f in d['fixed']:
    parts=f.split(' ',3)
    prop=parts[1].split('=')[1]; by.setdefault(prop,[]).append((parts[2],parts[3]))
for prop in sorted(by):
    out.append(f"* **{prop}**")
    for h,w in by[prop]:
        out.append(f"  * `{h}` {w}")
out.append("")
out.append(f"{len(d['fixed'])} repairs. Each was first shown against the real code (failing input / history in the commit message or the replay file), judged small and safe (a maintainer-acceptable correction of behaviour, no special-casing), and the check that found it passes on the repaired tree without a KNOWN-FINDING line.\n\n")
section("### D10.4 Genuine defects repaired","### D10.5 Known findings","\n".join(out))
# D10.5
out=["### D10.5 Known findings (genuine, recorded rather than repaired: `known_findings.json`)\n"]
seen=set()
for f in d['findings']:
    key=(f['property'],tuple(f['requires_tags']))
    if f['what'].startswith('same defect as'): continue
    if key in seen: continue
    seen.add(key)
    out.append(f"* **{f['property']}** `{f['rule']}` tags {f['requires_tags']}: {f['what']}")
out.append("")
out.append("A finding matches a violation only by rule **and** all of its `requires_tags`; tags are computed by the oracle from the cause (probe, configuration feature, structure of the table), never from the symptom alone — the one symptom-only entry that existed (`stuck:custom-action-output`) masked the seeded defect C01-a and was removed. Other violations of the same property are still reported.\n\n")
section("### D10.5 Known findings","### D10.6 Seeded defects","\n".join(out))
# D10.6
metas=sorted(glob.glob('/verif/seeded/*/meta.json'))
out=["### D10.6 Seeded defects from independent sub-agents: which check catches which change\n","| id | property | needs, to manifest | detected by | at first try? |","|---|---|---|---|---|"]
first=0
for m in metas:
    j=json.load(open(m)); name=os.path.basename(os.path.dirname(m))
    first+= j['detected']=='yes'
    out.append(f"| {name} | {j['property']} | {j['needs_to_manifest']} | {j['note']} | {j['detected']} |")
n=len(metas)
out.append("")
out.append(f"{n} seeded changes in five rounds (four over all 19 claimed properties, a fifth over the twelve whose checks had missed most; from round 2 on each agent was told what the earlier seeds for its property were about and asked for another code site and trigger; rounds 4 and 5 asked for feature interactions, boundary values and state left behind by earlier interactions); {first} were detected by the quick tier as it stood, the other {n-first} only after the check was strengthened — none is left undetected. Every change compiles, passes the unedited 281-test suite and fails its own demonstration; each was confirmed in a scratch worktree with `tools/verify_seed.sh` and run against the checks with `tools/try_seed.sh` (apply to /repo, run, `git checkout -- .`). The 'after-strengthening' entries show what the populations did not reach; each led to a new population or a sharper precondition that is now part of the quick tier.\n\n")
section("### D10.6 Seeded defects","### D10.6b Defects of the unchanged tree","\n".join(out))
open(p,'w').write(s)
print("fixed",len(d['fixed']),"findings",len(seen),"seeded",n,"first-try",first)
