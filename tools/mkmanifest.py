#!/usr/bin/env python3
"""Regenerates /verif/MANIFEST.json from the table below (kept in one place so it stays valid)."""
import json, subprocess

IDS = [f"C{i:02d}" for i in range(1, 21)]

CHECKS = {
 "C01": dict(cat="exploration", ref="D5 C01", tech="deterministic discrete-event simulation (seeded config+history search, fault injection: bursts/clock jumps/capacity pressure) with end-state invariant oracle",
   text="Seeded search over generated configurations (whole non-latching action grammar) x physically consistent histories with injected bursts (>32 events/ms), clock jumps, repeats and capacity pressure, run on the real Kanata state machine through the production loop protocol; after the last release the oracle requires, within Q(cfg) ms, no OS key/button down, no continuous scroll/move, silence, is_idle() and can-block. Evidence, not proof: held on every run explored.",
   note="Q(cfg) over-approximates 'bounded by configured timeouts and macro lengths'; KbdOut is the project's simulated_output recorder; three classes of genuine stuck-output defects are listed in known_findings.json and printed as KNOWN-FINDING."),
 "C02": dict(cat="exploration", ref="D5 C02", tech="deterministic simulation with hostile-input fault injection (dup/orphan/flood/any code/clock jump), crash+hang oracle",
   text="Seeded search over parser-accepted configurations generated from the whole grammar (boundary numerics, every action in every context) x hostile histories (any key code, repeated presses, orphan releases, floods of up to 300 events in one ms, repeat/tap events, TCP-style virtual key ops, 70 s gaps, clock jumps) in ticking and idle-blocking mode; oracle: no panic (overflow checks and debug assertions ON), no abort/stack overflow (worker death attributed to the run), no Err from tick, no hang (per-run watchdog).",
   note="sampling, not enumeration; cmd/clipboard/xset actions excluded at run time; build profile differs from the shipped release profile on purpose (overflow checks on)."),
 "C03": dict(cat="fault_enumeration", ref="D5 C03", tech="seeded fault injection on the storage seam (torn/corrupted/lost/duplicated bytes, missing/empty/self-including/non-UTF-8 files) + structure-aware mutation; totality oracle",
   text="Every valid configuration available (392 corpus files from samples, docs and tests + grammar-generated ones) is subjected to seeded storage faults and structure-aware mutations, then loaded through new_from_str (in-memory file provider) or new_from_file (real files on tmpfs). Oracle: returns Ok or Err, never panics/aborts/hangs; an error span lies inside the file it names on char boundaries; rendering the miette report does not panic.",
   note="No schedule or clock is involved: the technique contributes the fault model on the bytes the parser reads. Text <= 64 KiB, paren depth <= 64."),
}

NA = {
 "C11": "pure function of a 16-bit code / key name / config (discriminant tables, a transmute, set construction): no schedule, clock, fault or interleaving for a simulator to vary (DESIGN.md D7)",
}

def main():
    head = subprocess.run(["git","-C","/repo","log","--format=%H %s"],capture_output=True,text=True).stdout.strip().splitlines()
    hooks=[l.split()[0] for l in head if "verif hook" in l]
    checks=[]
    for pid in IDS:
        if pid in CHECKS:
            c=CHECKS[pid]
            checks.append({
              "property_id": pid,
              "quick_cmd": f"./check {pid} quick",
              "thorough_cmd": f"./check {pid} thorough",
              "evidence_file": f"/verif/evidence/{pid}.json",
              "replay_cmd_template": f"./check {pid} --replay {{path}}",
              "engine": "ksim",
              "level_claimed": {"category": c["cat"], "text": c["text"], "design_ref": c["ref"]},
              "level_note": c["note"],
              "technique": c["tech"],
            })
    na=[{"property_id":pid,"reason":NA.get(pid,"check not yet built (construction in progress)")} for pid in IDS if pid not in CHECKS]
    m={
     "version":1,
     "setup_cmd":"./check --setup",
     "hooks":{
       "guard":"--cfg kanata_verif",
       "enable":"RUSTFLAGS='--cfg kanata_verif' (set in /verif/.cargo/config.toml) building the shadow manifest /verif/shadow/kanata (lib path = /repo/src/lib.rs) which adds the kanata-verif-rt dependency; /repo/Cargo.toml and Cargo.lock are untouched",
       "baseline_off_cmd":"cd /repo && cargo test --workspace --no-fail-fast --offline",
       "source_commits":hooks,
       "add_only":True,
     },
     "engines":[{"name":"ksim","path":"/verif/ksim","serves_properties":sorted(CHECKS.keys()),
        "kind_free_text":"deterministic simulation with fault injection: (A) single-thread discrete-event stepper over the real Kanata state machine following the production loop protocol; (B) the real start_processing_loop on baton-scheduled real threads with a virtual clock (rt crate); seeded search, minimisation, replay files"}],
     "checks":checks,
     "notes":"See DESIGN.md. VERIF_SEED selects the batch seed (default fixed), VERIF_JOBS caps workers, VERIF_RUNS / VERIF_BUDGET_S override the per-tier run count / wall-clock cap. Exit 0 held, 1 VIOLATION (minimised replay verified in a fresh process), 2 harness error.",
     "not_applicable":na,
    }
    json.dump(m,open("/verif/MANIFEST.json","w"),indent=1)
    print("checks:",[c["property_id"] for c in checks])

if __name__=="__main__":
    main()
