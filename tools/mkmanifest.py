#!/usr/bin/env python3
"""Regenerates /verif/MANIFEST.json from the table below (kept in one place so it stays valid)."""
import json, subprocess

IDS = [f"C{i:02d}" for i in range(1, 21)]

CHECKS = {
 "C01": dict(cat="exploration", ref="D5 C01", tech="deterministic discrete-event simulation (seeded config+history search, fault injection: bursts/clock jumps/capacity pressure) with end-state invariant oracle",
   text="Seeded search over generated configurations (whole non-latching action grammar) x physically consistent histories with injected bursts (>32 events/ms), clock jumps, repeats and capacity pressure, run on the real Kanata state machine through the production loop protocol; after the last release the oracle requires, within Q(cfg) ms, no OS key/button down, no continuous scroll/move, silence, is_idle() and can-block. Evidence, not proof: held on every run explored.",
   note="Q(cfg) over-approximates 'bounded by configured timeouts and macro lengths'; KbdOut is the project's simulated_output recorder; four genuine stuck-output defect classes are known findings, each matched by a cause tag (custom events dropped: probe H5; input-queue overflow; self-retriggering action; > 4 concurrent macros); dedicated capacity populations drive the 64-slot state vector, the one-shot table and concurrent tap-holds to their limits with custom actions pressed there."),
 "C02": dict(cat="exploration", ref="D5 C02", tech="deterministic simulation with hostile-input fault injection (dup/orphan/flood/any code/clock jump), crash+hang oracle",
   text="Seeded search over parser-accepted configurations generated from the whole grammar (boundary numerics, every action in every context) x hostile histories (any key code, repeated presses, orphan releases, floods of up to 300 events in one ms, repeat/tap events, TCP-style virtual key ops, 70 s gaps, clock jumps) in ticking and idle-blocking mode; oracle: no panic (overflow checks and debug assertions ON), no abort/stack overflow (worker death attributed to the run), no Err from tick, no hang (per-run watchdog).",
   note="sampling, not enumeration; cmd/clipboard/xset actions excluded at run time; build profile differs from the shipped release profile on purpose (overflow checks on). One run in twelve is repeated on the real processing-loop thread (executor B) under seeded interleavings, step costs and 2-40 ms stalls: the loop must not panic, deadlock or spin and must exit when its channel closes."),
 "C03": dict(cat="fault_enumeration", ref="D5 C03", tech="seeded fault injection on the storage seam (torn/corrupted/lost/duplicated bytes, missing/empty/self-including/non-UTF-8 files) + structure-aware mutation; totality oracle",
   text="Every valid configuration available (392 corpus files from samples, docs and tests + grammar-generated ones) is subjected to seeded storage faults and structure-aware mutations, then loaded through new_from_str (in-memory file provider) or new_from_file (real files on tmpfs). Oracle: returns Ok or Err, never panics/aborts/hangs; an error span lies inside the file it names on char boundaries; rendering the miette report does not panic.",
   note="No schedule or clock is involved: the technique contributes the fault model on the bytes the parser reads. Text <= 64 KiB, paren depth <= 64."),
}

CHECKS.update({
 "C04": dict(cat="exploration", ref="D5 C04", tech="deterministic simulation + refinement against an executable reference model of the layered keymap (seeded config x history search)",
   text="Seeded search over configurations of the layered fragment (1-4 layers as deflayer/deflayermap, 2-6 keys, both transparent-resolution settings, delegate-to-first-layer, block/process-unmapped-keys) x physically consistent histories (<= 60 events, 0-3 ms gaps, < 32 pending); the real Kanata's OS output (ms, kind, key) must equal, event for event, the output of a 150-line reference model written from the property statement (FIFO one event per ms, search order newest held layer..base..first layer..defsrc, nested transparent continues below, release by coordinate, clear-on-next-action chords, ordered de-duplicated diff).",
   note="runs with >= 32 pending events, a full 64-entry state vector or more than 10 simultaneously held layers (12-slot layer stack) are outside the model and counted as skipped; key-name table trusted (C11)."),
 "C05": dict(cat="exploration", ref="D5 C05", tech="deterministic simulation over the boundary grid of schedules with exact-tick reference function (tap/hold/timeout decision) + trace invariants",
   text="All 7 tap-hold variants with three distinct marker actions, H in {1,2,5,50,200}, tap-repress windows, concurrent-tap-hold on/off, rapid-event-delay {0,5}; schedules of <= 8 events with gaps from {0,1,H-1,H,H+1,...}. Oracle: exactly one of tap/hold/timeout per press; for a press into a drained engine the decision AND its tick equal a reference function written from the docs + the tick conventions; early triggers per variant; keys pressed while undecided are neither lost, duplicated, reordered nor output before the decision; re-press inside the window = tap held.",
   note="exact tick constants are conventions of the pinned tree (DESIGN.md D5); sampling of the grid, fraction reached reported."),
 "C06": dict(cat="exploration", ref="D5 C06", tech="deterministic simulation over structured schedules at timeout boundaries with trace-invariant oracle",
   text="All one-shot end variants x payload key / output chord / layer, T in {1,2,10,100}, rapid-event-delay {0,1,5}; populations: exact expiry tick, next key (press vs release variants: first key modified, later keys not), held, stacked (combine + restart), re-press (pcancel ends, others restart), 17-20 stacked one-shots (table overflow), always ending with nothing down.",
   note="a following key arriving within a few ms (number of events in flight + 3) of the expiry instant is counted but not judged (time is counted when events are processed); the 'episodes' population runs several one-shot episodes on one instance (keys held before the one-shot key, expiry while a key is held) so that state left by one episode cannot leak into the next unnoticed."),
 "C07": dict(cat="exploration", ref="D5 C07", tech="deterministic simulation, differential: ticking run vs idle-blocking run of the same seeded history on fresh instances",
   text="For generated configurations with all time-dependent features and histories with gaps up to 70 s, two executions (never skip vs skip whenever the real can-block decision is true) must produce identical output traces with time measured relative to the preceding input, and the ticking run must output nothing between a true can-block decision and the next input.",
   note="part 2 ('loop' population, ~15% of the runs) runs the real start_processing_loop thread, an input feeder and a TCP-client task as real threads under the seeded baton scheduler of rt with a virtual clock (executor B): in strict mode (no jitter, ties feeder-first) the loop's output must equal the stepper's idle-blocking run tick for tick (this is what validates executor A's loop protocol; it corrected the stepper twice and found an off-by-one in kanata); with per-step costs, sleep overshoot and injected stalls of 2-40 ms the loop must terminate, nobody may deadlock or panic and nothing may stay down. The zippychord contingency-reset divergence is a known finding (probe H2)."),
 "C17": dict(cat="exploration", ref="D5 C17", tech="deterministic simulation over tap schedules at the timeout boundary with a reference segmentation function",
   text="Lazy and eager tap-dance with 1-4 marker actions, T in {2,5,20,200}; 1-6 taps with press-to-press gaps from {T-1,T,T+1,...}, optionally interrupted by another key, last tap optionally held. A reference function segments taps into dances (gap < T, list exhausted, other key) and predicts the exact sequence of actions; the chosen action must stay pressed until the final release.",
   note="gaps in [T, T+3+rapid-event-delay] accept both outcomes (queue latency of the press that starts the next dance), everything else is exact."),
})

CHECKS.update({
 "C08": dict(cat="exploration", ref="D5 C08", tech="deterministic simulation with a reference flattener of the macro step list (seeded config x trigger schedule search incl. cancel/re-trigger/concurrent macros)",
   text="The real Kanata's OS output for generated macros must equal, step for step and in order, the event list of a reference flattener written from the docs; undisturbed inter-step delays are checked tick for tick, cancel variants end with every key released.",
   note="two genuine defect classes are listed in known_findings.json and printed as KNOWN-FINDING (a macro's custom step overtaken by later steps; > 4 concurrent macros evict a running one leaving its keys down). Population 'concurrent > 4' checks the end state only."),
 "C09": dict(cat="exploration", ref="D5 C09", tech="deterministic simulation over press schedules at the chord-timeout boundary with a chord-table reference + conservation (accounting) invariant",
   text="Chord decisions at the timeout boundary are compared with a chord-table reference, plus a conservation invariant: every physical press is accounted for by exactly one chord marker or one single-key marker, in press order.",
   note="v1 'within' is < T and v2 is <= T in the pinned tree (convention, DESIGN.md); a participant re-pressed within 15 ms of its own release is outside the accounting precondition; sampling of permutations, not all of them."),
 "C10": dict(cat="exploration", ref="D5 C10", tech="deterministic simulation with a reference evaluator of switch/fork conditions over recorded key, layer and timing history",
   text="The markers output by the real switch/fork must equal those predicted by a reference evaluator of the boolean expression over an independently tracked reference state (keys down, key/input history with ages, layers).",
   note="key-timing comparisons exactly at the boundary tick are not judged (lt is <=, gt is > in the pinned tree: deliberate convention); lossy age ranges follow the documented u16/8-bit encodings."),
 "C13": dict(cat="exploration", ref="D5 C13", tech="deterministic simulation with an override reference model (containment + order sensitivity) over seeded press/release orders",
   text="The OS output sequence (ms, kind, key) of the real Kanata must equal that of an override reference model applying the stated rule over all sampled press/release orders.",
   note="override matching in the pinned tree is order dependent (modifier pressed after the key does not substitute): genuine deviation from the stated rule, recorded as a known finding with tag modifier-pressed-after-key; all other orders are judged exactly."),
 "C14": dict(cat="exploration", ref="D5 C14", tech="deterministic simulation with injected OS auto-repeat events at arbitrary instants (incl. while tap-hold/chord undecided), soundness+completeness oracle",
   text="OS auto-repeat events are injected at arbitrary instants; soundness (0/1 output, only for a key that is down at the OS) and completeness (held key that put a still-down output down gets exactly one repeat, non-modifier preferred) are checked on the real Kanata.",
   note="macros, sequences, caps-word and dynamic macros are outside the fragment; the allow-hardware-repeat gate (event_loop) is modelled by the feeder; two genuine defect classes (repeat chosen from kanata's internal list rather than OS state with unmod/overrides; modifier repeated instead of chord key) are known findings."),
 "C18": dict(cat="exploration", ref="D5 C18", tech="deterministic simulation of virtual-key operations (press/release/tap/toggle, hold-for-duration, on-idle) at timer boundaries with a reference state model",
   text="Virtual-key operations from every trigger form are compared with a boolean reference state per virtual key; hold-for-duration and on-idle timers are checked at their exact ticks.",
   note="the 'tcp-race' population (~6% of the runs, executor B) operates the virtual keys from a TCP-client task racing with the real processing-loop thread and a typing feeder under seeded interleavings, step costs and 2-40 ms stalls: per virtual key the OS transitions and the final state must agree with the sequential model of the client's operations, and the loop must terminate. Elsewhere TCP-style operations are applied between ticks on the stepper."),
 "C19": dict(cat="exploration", ref="D5 C19", tech="deterministic simulation of dynamic-macro record/play with reconstruction oracle (recorded items vs replayed trace), seeded histories incl. nested play and limits",
   text="What is fed back during replay is reconstructed from the typed history (identity population) or compared differentially with a fresh instance typed live (remap population); self-play and length limits must terminate with nothing stuck.",
   note="the one-event lag between a physical input and its recorded item is treated as convention; replay timing is compared up to queue latency."),
})

CHECKS.update({
 "C20": dict(cat="exploration", ref="D5 C20", tech="deterministic simulation with a text-buffer observer and a documentation-level reference model of zippychord (seeded dictionary x press-order/timing search around the deadline and idle-reactivate timers)",
   text="The OS output of the real Kanata (real parser, real zippychord state machine, tick-driven) is replayed into a text buffer with Linux key-state semantics and must equal the text predicted by a counter-free reference model: an activation replaces what the gesture / follow-up chain put on screen by the expansion (+ smart space), everything else passes through; no backspace may hit an empty buffer; shift / altgr held by the user are down at the OS after every activation; nothing is down at the end.",
   note="histories whose outcome depends on the exact tick of the chord deadline / idle-reactivate time / 10000-tick reset (within 3 ms) and holds mixing a follow-up with a later top-level activation are counted but not judged; dead-key mappings (no-erase, single-output) are outside the text model; six genuine defects found by this check were repaired (known_findings.json, fixed)."),
})

CHECKS.update({
 "C12": dict(cat="exploration", ref="D5 C12", tech="deterministic simulation of sequence mode at the timeout boundary (seeded defseq table x typing schedule search) with an independently recomputed prefix-freeness oracle and per-segment expectations; real sequence state compared after every event",
   text="Static: for every accepted defseq table the expansions (all permutations of O-groups) are recomputed from the generated structure and no expansion may be a prefix of another sequence's. Dynamic: leader + a defined sequence typed in a permitted order with press-to-press gaps < T fires its virtual key exactly once and leaves sequence mode; a proper prefix followed by a key that is in no sequence, or a gap >= T (T-1/T/T+1 sampled), ends the mode without any virtual key; the three input modes' output rules (hidden modes press nothing while active, hidden-delay-type flushes taps on failure, visible-backspaced one backspace per typed character on completion) are checked on the OS output.",
   note="two genuine defect classes are known findings: the parser accepts tables in which an O-group's first key equals another sequence typed plainly, and the matcher follows two hypotheses at most (sequences sharing a differently-encoded typed prefix); a third (O-group followed by further items could not complete) was repaired. sequence-always-on is only combined with the modes in which it is usable (not hidden-suppressed)."),
})

CHECKS.update({
 "C16": dict(cat="exploration", ref="D5 C16", tech="deterministic simulation, differential: original vs rewritten configuration (seeded neutral rewrites incl. the include-file seam) driven by the same seeded history on fresh instances",
   text="For generated configurations and 1-4 random semantically neutral rewrites (defalias, defvar for numbers and lists, deftemplate / template-expand / t! with parameters and if-equal guards, include files through the file-provider seam, platform wrappers, deflayer -> deflayermap) both texts must be accepted or both rejected, intercept the same keys and, driven by the same history, produce identical output traces tick for tick.",
   note="the relation is between two programs: nothing is scheduled or faulted beyond the file-provider seam (scope note in DESIGN.md); rewrite sites are layer actions and top-level forms."),
})

CHECKS.update({
 "C15": dict(cat="exploration", ref="D5 C15", tech="deterministic simulation of live reload on the real Kanata::new + handle_time_ticks (hooks H3/H4) with storage-fault injection on the reloaded file, differential oracles (failed reload vs twin without request; reloaded vs freshly started instance) and a notification channel of bounded capacity",
   text="Pairs (old configuration, new content) over 1-3 files; the file that lrld / lrld-next / lrld-prev / lrld-num will reload is replaced by a valid configuration or hit by a storage fault (unbalanced, truncated, semantically rejected, empty, missing, directory, not UTF-8); the request arrives while keys are held, tap-holds pending, one-shots active or macros running, optionally twice back-to-back. Failed reload: every attempt's verdict agrees with the parser, no ConfigFileReload is offered, and the whole output trace equals that of a twin configuration whose request key only pushes a message. Successful reload: only applied with nothing down at the OS (or >= 1000 ms after the request), ConfigFileReload(file) then LayerChange(first layer) are offered, nothing stays down, the right file index is used, and from the reload on the output equals that of a freshly started instance of the new file fed with the same subsequent input.",
   note="the loop thread itself is not run (executor A with hooks H3/H4, see DESIGN.md): races between the TCP thread and the loop are out of reach of this check. Two findings are recorded as known (output already stuck before the request; output left down when the one-second fallback applies); two genuine defects were repaired (held custom actions discarded by the reload; per-action state surviving the reload)."),
})

NA = {
 "C11": "pure function of a 16-bit code / key name / config (discriminant tables, a transmute, set construction): no schedule, clock, fault or interleaving for a simulator to vary (DESIGN.md D7)",
}

def main():
    head = subprocess.run(["git","-C","/repo","log","--format=%H %s"],capture_output=True,text=True).stdout.strip().splitlines()
    hooks=[l.split()[0] for l in head if "verif hook" in l]
    checks=[]
    try:
        rules=json.loads(subprocess.run(["/verif/target/debug/ksim","rules"],capture_output=True,text=True).stdout)
    except Exception:
        rules={}
    for pid in IDS:
        if pid in CHECKS:
            c=CHECKS[pid]
            checks.append({
              "property_id": pid,
              "quick_cmd": f"./check {pid} quick",
              "thorough_cmd": f"./check {pid} thorough",
              "evidence_file": f"/verif/evidence/{pid}.json",
              "replay_cmd_template": f"./check {pid} --replay {{path}}",
              "engine": "ksim",
              "level_claimed": {"category": c["cat"], "text": c["text"] + (" Explored space as stated by the checker: " + rules[pid] if pid in rules else ""), "design_ref": c["ref"]},
              "level_note": c["note"],
              "technique": c["tech"],
            })
    na=[{"property_id":pid,"reason":NA.get(pid,"check not yet built (construction in progress)")} for pid in IDS if pid not in CHECKS]
    m={
     "version":1,
     "setup_cmd":"./check --setup",
     "hooks":{
       "guard":"--cfg kanata_verif",
       "enable":"RUSTFLAGS='--cfg kanata_verif' (set in /verif/.cargo/config.toml) building the shadow manifest /verif/shadow/kanata (lib path = /repo/src/lib.rs) which adds the kanata-verif-rt dependency; /repo/Cargo.toml and Cargo.lock are untouched",
       "baseline_off_cmd":"cd /repo && cargo test --workspace --no-fail-fast --offline",
       "source_commits":hooks,
       "add_only":True,
     },
     "engines":[{"name":"ksim","path":"/verif/ksim","serves_properties":sorted(CHECKS.keys()),
        "kind_free_text":"deterministic simulation with fault injection: (A) single-thread discrete-event stepper over the real Kanata state machine following the production loop protocol; (B) the real start_processing_loop on baton-scheduled real threads with a virtual clock (rt crate); seeded search, minimisation, replay files"}],
     "checks":checks,
     "notes":"See DESIGN.md. VERIF_SEED selects the batch seed (default fixed), VERIF_JOBS caps workers, VERIF_RUNS / VERIF_BUDGET_S override the per-tier run count / wall-clock cap. Exit 0 held, 1 VIOLATION (minimised replay verified in a fresh process), 2 harness error.",
     "not_applicable":na,
    }
    json.dump(m,open("/verif/MANIFEST.json","w"),indent=1)
    print("checks:",[c["property_id"] for c in checks])

if __name__=="__main__":
    main()
