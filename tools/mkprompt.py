#!/usr/bin/env python3
"""mkprompt.py <prop> <round-letter>: writes /tmp/wt/<prop><round>.prompt.txt from the template, the property text
and the needs_to_manifest of every earlier seed of that property (so the agent produces a different one)."""
import sys, json, glob, os
prop, rnd = sys.argv[1], sys.argv[2]
wt = f"/tmp/wt/{prop}{rnd}"
tpl = open('/tmp/wt/prompt_template.txt').read()
text = None
for l in open('/verif/properties.jsonl'):
    d = json.loads(l)
    if d['id'] == prop:
        text = d['statement']
earlier = []
for m in sorted(glob.glob(f'/verif/seeded/{prop}-*/meta.json')):
    earlier.append(json.load(open(m)).get('needs_to_manifest', ''))
tail = "\n\nEarlier, unrelated exercises already produced seeded defects for this property, around: " + " ".join(f"({i+1}) {e};" for i, e in enumerate(earlier)) + " Produce a DIFFERENT one: another code site and another triggering condition, touching a part of the property's statement those do not; prefer defects that only show when two features interact, at boundary values, or after a particular earlier history (state left behind by a previous, completed interaction). Do NOT use `git stash` (the stash is shared between worktrees); use `git diff > file` and `git apply -R file` instead. In demo_cmd.txt give a single command line that really runs your test and does not undo it afterwards (the simulation tests under src/tests/sim_tests are only compiled with `cargo test --workspace ...` or `-p kanata --features simulated_output`); keep it a plain command without braces. IMPORTANT second deliverable: while reading the code, look for behaviour of the UNCHANGED code that already violates the property; for each such case give the exact config and input script and the observed vs expected output (run it with the sim test helpers to confirm) in a section 'Side observations' of notes.md and in your final reply.\n"
out = tpl.replace('WORKTREE', wt).replace('PROPTEXT', text) + tail
open(f'/tmp/wt/{prop}{rnd}.prompt.txt', 'w').write(out)
print(wt, len(out))
