#!/bin/bash
# usage: tools/multiseed.sh "<ids>" <first_seed> <last_seed> [tier]
# Runs each check with several VERIF_SEED values; prints one line per (id, seed). Evidence files
# written by these runs land in the cwd's evidence/ (a vp-run snapshot when used via `vp run`).
cd "$(dirname "$0")/.." || exit 2
ids="$1"; a="$2"; b="$3"; tier="${4:-quick}"
./check --setup >/dev/null || exit 2
for id in $ids; do
  for s in $(seq "$a" "$b"); do
    out=$(VERIF_SEED=$s ./check "$id" "$tier" 2>&1); rc=$?
    echo "$id seed=$s rc=$rc $(echo "$out" | grep -E '^property=' | cut -c1-200)"
    if [ $rc -ne 0 ]; then echo "$out" | grep -E '^violation|^VIOLATION|HARNESS|^  ' | cut -c1-600 | head -30; fi
  done
done
