#!/bin/bash
# usage: tools/reseed_all.sh [name-pattern]
# Re-applies every seeded change under /verif/seeded/ that still applies to the current /repo tree
# (later "fix:" commits touch the same lines as some of them), runs the quick check of its property
# and reports whether it is still detected. /repo is restored after each one. Evidence files and
# replay files written by these runs are discarded.
cd "$(dirname "$0")/.." || exit 2
pat="${1:-*}"
git -C /repo diff --quiet || { echo "/repo is not clean"; exit 2; }
mkdir -p work/reseed
for d in seeded/$pat/; do
  name=$(basename "$d"); prop=$(jq -r .property "$d/meta.json")
  if ! git -C /repo apply --check "$PWD/$d/patch.diff" 2>/dev/null; then echo "$name $prop patch-no-longer-applies"; continue; fi
  git -C /repo apply "$PWD/$d/patch.diff"
  cp evidence/$prop.json work/reseed/$prop.json.keep
  out=$(./check "$prop" quick 2>&1); rc=$?
  git -C /repo checkout -- .
  cp work/reseed/$prop.json.keep evidence/$prop.json
  n=$(echo "$out" | grep -c "^VIOLATION")
  for f in $(echo "$out" | grep "^VIOLATION" | sed 's/.*replay=//'); do rm -f "$f"; done
  echo "$name $prop rc=$rc violations=$n $(echo "$out" | grep '^violation:' | head -1 | cut -c1-90)"
done
git -C /repo status --short | head -3
