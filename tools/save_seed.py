#!/usr/bin/env python3
"""save_seed.py <name> <prop> <needs> <caught_by> <detected: yes|no|after-strengthening> [note]"""
import sys, json, os, shutil
name, prop, needs, caught_by, detected = sys.argv[1:6]
note = sys.argv[6] if len(sys.argv) > 6 else ""
src = f"/tmp/seedsave/{name}"; dst = f"/verif/seeded/{name}"
os.makedirs(dst, exist_ok=True)
for f in os.listdir(src):
    if f.endswith(('.diff', '.txt', '.md')) and os.path.getsize(os.path.join(src, f)) < 200000:
        shutil.copy(os.path.join(src, f), dst)
meta = {
 "property": prop,
 "origin": "fresh sub-agent given only the property text and a scratch worktree (no access to /verif)",
 "needs_to_manifest": needs,
 "confirmed": "tools/verify_seed.sh in the scratch worktree reset to the unchanged tree: demo passes without the change, fails with it; full existing suite (cargo test --workspace --no-fail-fast --offline) 281 passed / 0 failed with the change",
 "checks_run": caught_by,
 "detected": detected,
 "note": note,
}
json.dump(meta, open(os.path.join(dst, "meta.json"), "w"), indent=1)
print("saved", dst, os.listdir(dst))
