#!/bin/bash
# usage: try_seed.sh <name> <check ids...> : apply /verif/seeded/<name>/patch.diff (or /tmp/seedsave) to /repo, run the quick checks, undo
NAME=$1; shift
P=/verif/seeded/$NAME/patch.diff; [ -f $P ] || P=/tmp/seedsave/$NAME/patch.diff
cd /verif
git -C /repo apply $P || { echo "apply failed"; exit 2; }
for id in "$@"; do
  /usr/bin/time -f "$id %es" ./check $id ${TIER:-quick} 2>&1 | grep -E "^(property|VIOLATION|KNOWN-FINDING|C[0-9]+ [0-9.]+s)" | cut -c1-260
done
git -C /repo checkout -- .
git -C /repo status --short | head -3
