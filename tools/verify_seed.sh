#!/bin/bash
# usage: verify_seed.sh <worktree> <prop-id> <name>
# Confirms a sub-agent's seeded change in its scratch worktree (reset to the unchanged tree first):
# demo passes without / fails with the change; the full existing suite passes with the change.
# Then copies it to /verif/seeded/<name>/ .
set -u
WT=$1; PID=$2; NAME=$3
OUT=$WT/seeded_out
[ -f $OUT/patch.diff ] || { echo "no patch.diff"; exit 2; }
mkdir -p /tmp/seedsave/$NAME && cp -r $OUT/. /tmp/seedsave/$NAME/
cd $WT
git reset -q --hard HEAD; git clean -fdq -e seeded_out -e target
DEMO_CMD=$(grep -v "^\s*#" /tmp/seedsave/$NAME/demo_cmd.txt | grep -m1 cargo | sed "s#^.*\(cargo test\)#\1#")
echo "demo cmd: $DEMO_CMD"
git apply /tmp/seedsave/$NAME/demo.diff || { echo "demo.diff does not apply"; exit 2; }
echo "--- demo WITHOUT change"
( eval "$DEMO_CMD" 2>&1 | grep -E "^test result|^test .*(FAILED|ok)$" | sort | uniq -c | sort -rn | head -8 ) 
git apply /tmp/seedsave/$NAME/patch.diff || { echo "patch.diff does not apply"; exit 2; }
echo "--- demo WITH change"
( eval "$DEMO_CMD" 2>&1 | grep -E "^test result|^test .*(FAILED|ok)$" | sort | uniq -c | sort -rn | head -8 )
# remove the demo, keep the change, run the existing suite
git apply -R /tmp/seedsave/$NAME/demo.diff
echo "--- full suite WITH change (demo removed)"
cargo test --workspace --no-fail-fast --offline 2>&1 | grep -E "^test result" | awk '{p+=$4; f+=$6} END{print "passed",p,"failed",f}'
git diff --stat | tail -3
